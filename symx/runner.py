"""Parallel exploration driver, replay, known findings, evidence, exit codes.

Exit codes: 0 property held on everything explored (KNOWN-FINDING lines allowed)
            1 at least one reproduced violation not listed as known
            3 harness error / inconclusive (never a verdict)
"""
import importlib
import json
import multiprocessing as mp
import os
import subprocess
import sys
import time
import traceback
import hashlib

from .common import HarnessError, Stats

VERIF = os.path.dirname(os.path.dirname(os.path.abspath(__file__)))
REPLAY_PY = '/venv/bin/python'
REPO = os.environ.get('VERIF_REPO', '/repo')

_W = {}


def _merge_counts(dst, src):
    for k, v in src.items():
        dst[k] = dst.get(k, 0) + v


def _new_engine(seed):
    from .engine import Engine
    return Engine(seed=seed)


def _task(args):
    modname, fam, params, prefixes, max_paths, max_s, seed = args
    try:
        mod = importlib.import_module(modname)
        eng = _W.get('eng')
        if eng is None:
            eng = _W['eng'] = _new_engine(seed)
        eng.stats = Stats()
        eng.violations = {}
        eng.witnesses = {}
        eng.samples = []
        eng.notes = {}
        eng.assumes = {}
        eng.worklist = list(prefixes)
        eng.xcheck_every = int(os.environ.get('VERIF_XCHECK_EVERY', '40'))
        eng.xchecks = 0
        eng.real_models = []
        eng.real_models_wanted = 1
        deadline = time.time() + max_s
        eng.explore(lambda e: mod.harness(e, fam, params), max_paths=max_paths, deadline=deadline)
        left = [eng.export_prefix(p) for p in eng.worklist]
        eng.worklist = []
        return {'stats': eng.stats.as_dict(), 'violations': eng.violations, 'witnesses': eng.witnesses,
                'samples': eng.samples, 'notes': eng.notes, 'assumes': eng.assumes, 'left': left,
                'xchecks': eng.xchecks, 'real_models': eng.real_models}
    except BaseException as e:
        return {'error': '%s: %s\n%s' % (type(e).__name__, e, traceback.format_exc())}


class Accum:
    def __init__(self):
        self.stats = Stats()
        self.violations = {}
        self.witnesses = {}
        self.samples = []
        self.notes = {}
        self.assumes = {}
        self.xchecks = 0
        self.real_models = []

    def add(self, r):
        self.xchecks += r.get('xchecks', 0)
        for m in r.get('real_models', []):
            if len(self.real_models) < 64:
                self.real_models.append(m)
        self.stats.add(r['stats'])
        for k, v in r['violations'].items():
            cur = self.violations.get(k)
            if cur is None:
                self.violations[k] = v
            else:
                cur['count'] += v['count']
        _merge_counts(self.witnesses, r['witnesses'])
        _merge_counts(self.notes, r['notes'])
        _merge_counts(self.assumes, r['assumes'])
        for s in r['samples']:
            if len(self.samples) < 6:
                self.samples.append(s)


def explore_family(modname, fam, params, seed, budget_s, procs, max_paths=None, funcs=None, validate=None):
    """Explore one family completely or until the time budget is used.
    Returns (Accum, completed: bool)."""
    mod = importlib.import_module(modname)
    acc = Accum()
    t0 = time.time()
    deadline = t0 + budget_s
    eng = _new_engine(seed)
    eng.bfs = True
    eng.worklist = [[]]
    eng.xcheck_every = int(os.environ.get('VERIF_XCHECK_EVERY', '40'))
    eng.real_models_wanted = validate if validate else 2
    prof = None
    if funcs is not None:
        def prof(frame, event, arg):
            if event == 'call':
                fn = frame.f_code.co_filename
                if fn.startswith(REPO + '/file_builder/') and '/test/' not in fn:
                    funcs.add('%s:%s' % (os.path.basename(fn), frame.f_code.co_qualname
                                         if hasattr(frame.f_code, 'co_qualname') else frame.f_code.co_name))
        import threading
        threading.setprofile(prof)
        sys.setprofile(prof)
    try:
        seed_paths = 0
        while eng.worklist and len(eng.worklist) < 6 * procs and time.time() < deadline:
            eng.explore(lambda e: mod.harness(e, fam, params), max_paths=8)
            seed_paths += 8
            if prof is not None and seed_paths >= 64:
                sys.setprofile(None)
                import threading
                threading.setprofile(None)
                prof = None
    finally:
        sys.setprofile(None)
        import threading
        threading.setprofile(None)
    acc.add({'stats': eng.stats.as_dict(), 'violations': eng.violations, 'witnesses': eng.witnesses,
             'samples': eng.samples, 'notes': eng.notes, 'assumes': eng.assumes, 'xchecks': eng.xchecks,
             'real_models': eng.real_models})
    queue = [eng.export_prefix(p) for p in eng.worklist]
    eng.worklist = []
    if not queue:
        return acc, True
    if procs <= 1:
        e2 = _new_engine(seed)
        e2.worklist = queue
        e2.explore(lambda e: mod.harness(e, fam, params), deadline=deadline)
        acc.add({'stats': e2.stats.as_dict(), 'violations': e2.violations, 'witnesses': e2.witnesses,
                 'samples': e2.samples, 'notes': e2.notes, 'assumes': e2.assumes})
        return acc, not e2.worklist
    ctx = mp.get_context('fork')
    completed = True
    with ctx.Pool(procs) as pool:
        pending = []
        total_paths = acc.stats.paths

        def submit(prefixes):
            rem = deadline - time.time()
            pending.append(pool.apply_async(
                _task, ((modname, fam, params, prefixes, 300, max(0.5, min(6.0, rem)), seed),)))

        while queue or pending:
            now = time.time()
            if now >= deadline or (max_paths is not None and total_paths >= max_paths):
                if queue:
                    completed = False
                    queue = []
                if not pending:
                    break
            while queue and len(pending) < 2 * procs:
                # hand out prefixes one by one (the shallowest first: biggest subtrees)
                submit([queue.pop(0)])
            done = [p for p in pending if p.ready()]
            if not done:
                time.sleep(0.005)
                continue
            for p in done:
                pending.remove(p)
                r = p.get()
                if 'error' in r:
                    pool.terminate()
                    raise HarnessError('worker failed in family %s: %s' % (fam, r['error']))
                acc.add(r)
                total_paths += r['stats']['paths']
                left = r['left']
                if left:
                    if time.time() < deadline:
                        queue.extend(left)
                    else:
                        completed = False
    return acc, completed


# ---------------------------------------------------------------------- replay
def write_replay(prop, modname, fam, params, rec, sub=None):
    d = os.path.join(VERIF, 'replays', prop)
    if sub:
        d = os.path.join(d, sub)
    os.makedirs(d, exist_ok=True)
    body = {'property': prop, 'module': modname, 'family': fam, 'params': params, 'check': rec['check'],
            'sig': rec['sig'], 'info': rec.get('info'), 'path_info': rec.get('path_info'),
            'model': rec['model']}
    blob = json.dumps(body, sort_keys=True, default=str)
    h = hashlib.sha256(blob.encode()).hexdigest()[:12]
    path = os.path.join(d, '%s.json' % h)
    with open(path, 'w') as f:
        json.dump(body, f, indent=1, sort_keys=True, default=str)
    return path


def run_replay(path, timeout=180):
    """Replay on the real OS with the interpreter the test-suite uses.
    Returns (status, failures): status in reproduced | not-reproduced | error"""
    env = dict(os.environ)
    env['PYTHONPATH'] = REPO + ':' + VERIF
    env.setdefault('PYTHONHASHSEED', '0')
    try:
        py = REPLAY_PY
        try:
            with open(path) as fh:
                if json.load(fh).get('params', {}).get('lines'):
                    # line-level schedules are tied to the interpreter's line events: replay under the same Python
                    py = sys.executable
        except Exception:
            pass
        p = subprocess.run([py, os.path.join(VERIF, 'replay.py'), path], capture_output=True,
                           text=True, timeout=timeout, env=env)
    except subprocess.TimeoutExpired:
        return 'error', [{'error': 'replay timed out'}]
    out = None
    for line in p.stdout.splitlines():
        if line.startswith('REPLAY-RESULT '):
            out = json.loads(line[len('REPLAY-RESULT '):])
    if out is None:
        return 'error', [{'error': 'no result', 'stdout': p.stdout[-2000:], 'stderr': p.stderr[-4000:]}]
    return out['status'], out['failures']


def load_known():
    p = os.path.join(VERIF, 'known_findings.json')
    if not os.path.exists(p):
        return []
    with open(p) as f:
        return json.load(f)


def _sig_match(pat, sig):
    if len(pat) != len(sig):
        return False
    return all(a == '*' or str(a) == str(b) for a, b in zip(pat, sig))


def match_known(known, prop, sig):
    for k in known:
        if k.get('status') == 'known' and k.get('property') == prop and _sig_match(k['signature'], sig):
            return k
    return None


# ---------------------------------------------------------------------- main driver
def run_check(prop, modname, tier, seed):
    t0 = time.time()
    mod = importlib.import_module(modname)
    procs = int(os.environ.get('VERIF_PROCS', '16'))
    families = mod.families(tier)
    only = os.environ.get('VERIF_FAMILIES')
    if only:
        families = [f for f in families if f['name'] in only.split(',')]
    budget = float(os.environ.get('VERIF_BUDGET_S', mod.BUDGET_S[tier]))
    total = Accum()
    fam_report = []
    funcs = set()
    all_viol = []
    real_validations = 0
    validation_failures = []
    real_only = []
    all_samples = []
    weights = [f.get('weight', 1.0) for f in families]
    wsum = sum(weights)
    spent = 0.0
    for i, f in enumerate(families):
        remaining_w = sum(weights[i:])
        left_total = max(0.0, budget - spent)
        share = left_total * weights[i] / remaining_w
        # unused time flows forward; a family may exceed its share (x3 in the quick tier, whose families are sized
        # to complete) as long as 3 s per remaining family stay reserved
        slack = 3.0 if tier == 'quick' else 1.5
        fam_budget = max(3.0, min(share * slack, left_total - 3.0 * (len(families) - i - 1)))
        ft = time.time()
        acc, completed = explore_family(modname, f['name'], f.get('params', {}), seed, fam_budget, procs,
                                        funcs=funcs if i < 3 else None, validate=f.get('validate'))
        dt = time.time() - ft
        spent += dt
        fam_report.append({'family': f['name'], 'params': f.get('params', {}), 'paths': acc.stats.paths,
                           'completed': completed, 'wall_s': round(dt, 2),
                           'violation_signatures': len(acc.violations)})
        total.add({'stats': acc.stats.as_dict(), 'violations': {}, 'witnesses': acc.witnesses,
                   'samples': [], 'notes': acc.notes, 'assumes': acc.assumes, 'xchecks': acc.xchecks})
        all_samples.extend(acc.samples[:1] if len(families) > 3 else acc.samples[:2])
        # ---- model validation: a few completed paths of this family are re-run on the real OS; every
        # obligation that held symbolically must hold there too (otherwise the environment model is wrong)
        nval = int(os.environ.get('VERIF_REAL_VALIDATIONS', '2' if tier == 'quick' else '6'))
        nval = max(nval, f.get('validate', 0))       # families whose point is the real gzip/json/OS (e.g. odd file names)
        if not acc.violations:
            for rm in acc.real_models[:nval]:
                rec = {'check': '(model validation)', 'sig': ['(model validation)'], 'info': None,
                       'path_info': rm.get('path_info'), 'model': rm['model']}
                vpath = write_replay(prop, modname, f['name'], f.get('params', {}), rec, sub='validate')
                status, failures = run_replay(vpath)
                real_validations += 1
                if status == 'error':
                    validation_failures.append((f['name'], vpath, status, failures))
                elif failures:
                    # an obligation fails for the real library on the real OS although it holds on the model: the
                    # difference is below the model (gzip/json/OS level).  It is a reproduced counterexample all the same.
                    real_only.append((f, vpath, failures))
                else:
                    os.remove(vpath)
        for k, v in acc.violations.items():
            all_viol.append((f, k, v))
    # ---- replay counterexamples on the real OS
    known = load_known()
    reported, known_hits, unreproduced = [], [], []
    replays = 0
    seen_sigs = set()
    max_replays = int(os.environ.get('VERIF_MAX_REPLAYS', '24'))
    # candidates whose signature is not a listed known finding come first: the replay cap must never be used up by the
    # known ones
    all_viol.sort(key=lambda t: 0 if match_known(known, prop, t[2].get('sig') or list(t[1])) is None else 1)
    n_unknown = sum(1 for t in all_viol if match_known(known, prop, t[2].get('sig') or list(t[1])) is None)
    max_replays = max(max_replays, min(n_unknown, 60) + 12)
    for f, k, v in all_viol:
        if replays >= max_replays:
            break
        path = write_replay(prop, modname, f['name'], f.get('params', {}), v)
        replays += 1
        status, failures = run_replay(path)
        if status == 'reproduced':
            hit = False
            for fl in failures:
                sig = tuple(str(x) for x in fl['sig'])
                if sig in seen_sigs:
                    hit = True
                    continue
                seen_sigs.add(sig)
                hit = True
                kn = match_known(known, prop, fl['sig'])
                if kn is not None:
                    known_hits.append((kn, path, v['count']))
                else:
                    reported.append((fl, path, v['count']))
            if not hit:
                unreproduced.append((k, path, failures))
        else:
            unreproduced.append((k, path, failures))
    for f_, vpath, failures in real_only:
        for fl in failures:
            sig = tuple(str(x) for x in fl['sig'])
            if sig in seen_sigs:
                continue
            seen_sigs.add(sig)
            kn = match_known(known, prop, fl['sig'])
            if kn is not None:
                known_hits.append((kn, vpath, 1))
            else:
                reported.append((fl, vpath, 1))
    # keep only replay files of reported/known ones; others stay for debugging too
    missing = [wn for wn in getattr(mod, 'WITNESSES', {}).get(tier, []) if wn not in total.witnesses]
    wall = time.time() - t0
    exhaustive = all(fr['completed'] for fr in fam_report)
    st = total.stats
    cov = {
        'states': st.paths,
        'transitions': st.decisions,
        'traces_validated_against_impl': replays + real_validations + total.xchecks,
        'concolic_cross_checks_in_model': total.xchecks, 'paths_revalidated_on_real_os': real_validations,
        'samples': all_samples[:12] or [{'note': 'no sample recorded'}],
        'exhaustive': exhaustive,
        'paths_completed': st.paths_completed, 'paths_aborted_by_assumption': st.paths_aborted,
        'feasibility_queries': st.feas_queries, 'validity_queries': st.validity_queries,
        'obligations': st.obligations, 'discharged_by_solver': st.discharged,
        'discharged_concretely': st.discharged_concrete,
        'solver_seconds': round(st.solver_s, 2), 'max_decisions_on_path': st.max_decisions_on_path,
        'families': fam_report,
        'functions_encoded': sorted(funcs),
        'bounds': mod.BOUNDS.get(tier) if isinstance(mod.BOUNDS, dict) else mod.BOUNDS,
        'stubs': getattr(mod, 'STUBS', COMMON_STUBS),
        'witnesses': total.witnesses, 'missing_witnesses': missing,
        'notes': total.notes, 'assumes_applied': total.assumes,
        'replays_on_real_os': replays,
        'known_findings_hit': [{'what': kn['what'], 'replay': os.path.relpath(p, VERIF), 'paths': c}
                               for kn, p, c in known_hits],
        'engine': 'symx on z3 %s; real modules imported from /repo at run time' % _z3v(),
        'rule': 'states = execution paths closed by the solver (each a class of trees/contents/timestamps); '
                'transitions = branch decisions taken through feasibility queries',
    }
    ev = {'property_id': prop, 'tier': tier, 'seed': seed, 'level': getattr(mod, 'LEVEL', 'model_checking'),
          'coverage': cov, 'assumptions': list(getattr(mod, 'ASSUMPTIONS', [])) + COMMON_ASSUMPTIONS,
          'wall_s': round(wall, 2), 'violations': len(reported)}
    if ev['level'] == 'fault_enumeration':
        cov['evaluations'] = st.paths
        cov['distinct_nontrivial'] = sum(v for k, v in total.notes.items() if k.startswith('nontrivial'))
        cov['rule'] += '; distinct_nontrivial = paths on which an injected crash/fault actually fired inside a build'
    evdir = os.environ.get('VERIF_EVIDENCE_DIR') or os.path.join(VERIF, 'evidence')
    os.makedirs(evdir, exist_ok=True)
    with open(os.path.join(evdir, prop + '.json'), 'w') as fh:
        json.dump(ev, fh, indent=1, sort_keys=True, default=str)
    printed = set()
    for kn, p, c in known_hits:
        if kn['what'] not in printed:
            printed.add(kn['what'])
            print('KNOWN-FINDING: property=%s %s' % (prop, kn['what']))
    code = 0
    for fl, p, c in reported:
        print('VIOLATION property=%s replay=%s' % (prop, p))
        print('  check=%s sig=%s info=%s' % (fl['check'], fl['sig'], json.dumps(fl.get('info'), default=str)[:500]))
        code = 1
    if unreproduced:
        for k, p, fl in unreproduced[:5]:
            print('INCONCLUSIVE: counterexample %s did not reproduce on the real OS (replay=%s): %s'
                  % (list(k), p, json.dumps(fl, default=str)[:600]))
        if code == 0:
            code = 3
    incon = {k: v for k, v in total.notes.items() if k.startswith('inconclusive-path')}
    if incon:
        for k, v in sorted(incon.items())[:5]:
            print('INCONCLUSIVE: %d path(s) left undecided, %s' % (v, k))
        if code == 0:
            code = 3
    if validation_failures:
        for fam_, vp_, st_, fl_ in validation_failures[:5]:
            print('INCONCLUSIVE: model validation failed in family %s: a path that holds symbolically does not hold on the '
                  'real OS (replay=%s): %s %s' % (fam_, vp_, st_, json.dumps(fl_, default=str)[:600]))
        if code == 0:
            code = 3
    if code == 0 and missing:
        print('INCONCLUSIVE: reachability witnesses never hit: %s' % missing)
        code = 3
    print('%s tier=%s paths=%d decisions=%d queries=%d solver_s=%.1f wall=%.1fs exhaustive=%s exit=%d'
          % (prop, tier, st.paths, st.decisions, st.feas_queries + st.validity_queries, st.solver_s, wall,
             exhaustive, code))
    return code


def _z3v():
    import z3
    return z3.get_version_string()


COMMON_STUBS = [
    'os.*/open -> ModelFS with Linux errno semantics (ENOENT/ENOTDIR/EISDIR/EEXIST/ENOTEMPTY)',
    'gzip.open + json.dumps/load -> document store on the node (JSON round trip = identity on sanitised values)',
    'hashlib.sha256 -> injective in the content id', 'tempfile.mkdtemp / shutil.rmtree -> model /tmp',
    'os.path.islink -> False; os.path.normcase -> identity (posix); logging disabled',
]
COMMON_ASSUMPTIONS = [
    'no symlinks, posix path semantics, no external modification during an API call',
    'SHA-256 is collision free; JSON round trip through gzip is the identity on sanitised values',
    'symbolic run under Python 3.11 (tooling venv); counterexamples replayed under /venv/bin/python 3.12 on the real OS',
]

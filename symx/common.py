"""Shared, z3-free definitions."""


class PathAbort(BaseException):
    """The current path is infeasible / outside the assumptions: drop it."""


class PathEnd(BaseException):
    """The current path ends here (after a recorded violation)."""


class HarnessError(BaseException):
    """Engine / model / harness problem: the run is inconclusive (exit 3)."""


class Unsupported(HarnessError):
    """A proxy operation the engine does not model."""


class Unmodelled(HarnessError):
    """An environment call the model does not implement."""


def is_sym(x):
    return getattr(type(x), '_is_sym', False)


class Stats:
    FIELDS = ('paths', 'paths_completed', 'paths_aborted', 'decisions', 'forks', 'feas_queries',
              'validity_queries', 'obligations', 'discharged', 'discharged_concrete', 'solver_s',
              'max_decisions_on_path')

    def __init__(self):
        for f in self.FIELDS:
            setattr(self, f, 0)

    def as_dict(self):
        return {f: getattr(self, f) for f in self.FIELDS}

    def add(self, d):
        for f in self.FIELDS:
            if f == 'max_decisions_on_path':
                self.max_decisions_on_path = max(self.max_decisions_on_path, d.get(f, 0))
            else:
                setattr(self, f, getattr(self, f) + d.get(f, 0))

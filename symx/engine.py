"""Symbolic engine: z3-backed decisions, DFS over decision prefixes by
re-execution, end-of-path validity queries, model extraction.

Only imported under python3-vt (needs z3).  Replays use concrete.py instead.
"""
import time
import z3

from .common import PathAbort, PathEnd, HarnessError, Unsupported, Unmodelled, Stats


class _Memo:
    """Structural memo of z3 terms.  Keeps every term alive, so z3's own
    hash-consing gives stable ast ids inside one process lineage (the ids are
    the determinism guard of decision prefixes) and z3py object churn is
    avoided."""

    def __init__(self):
        self.bin = {}
        self.un = {}
        self.ints = {}
        self.consts = {}
        self.keep = []

    def intval(self, i):
        r = self.ints.get(i)
        if r is None:
            r = self.ints[i] = z3.IntVal(i)
        return r

    def const(self, name, sort):
        k = (name, sort)
        r = self.consts.get(k)
        if r is None:
            if sort == 'i':
                r = z3.Int(name)
            elif sort == 'b':
                r = z3.Bool(name)
            else:
                raise HarnessError('sort ' + sort)
            self.consts[k] = r
        return r

    def op2(self, op, a, b):
        k = (op, tid(a), tid(b))
        r = self.bin.get(k)
        if r is None:
            if op == '==':
                t = a == b
            elif op == '<':
                t = a < b
            elif op == '<=':
                t = a <= b
            elif op == '+':
                t = a + b
            elif op == '-':
                t = a - b
            elif op == '*':
                t = a * b
            elif op == 'div':
                t = a / b
            elif op == 'mod':
                t = a % b
            elif op == 'and':
                t = z3.And(a, b)
            elif op == 'or':
                t = z3.Or(a, b)
            elif op == '=>':
                t = z3.Implies(a, b)
            else:
                raise HarnessError('op ' + op)
            r = self.bin[k] = (t, a, b)
        return r[0]

    def op1(self, op, a):
        k = (op, tid(a))
        r = self.un.get(k)
        if r is None:
            if op == 'not':
                ia = tid(a)
                if ia in _NOT_CHILD:
                    t = _NOT_CHILD[ia]
                elif ia == TRUE_ID:
                    t = FALSE
                elif ia == FALSE_ID:
                    t = TRUE
                elif z3.is_not(a):
                    t = a.arg(0)
                else:
                    t = z3.Not(a)
                    _NOT_CHILD[tid(t)] = a
            elif op == 'neg':
                t = -a
            elif op == 'b2i':
                t = z3.If(a, self.intval(1), self.intval(0))
            else:
                raise HarnessError('op ' + op)
            r = self.un[k] = (t, a)
        return r[0]

    def ite(self, c, a, b):
        k = ('ite', tid(c), tid(a), tid(b))
        r = self.bin.get(k)
        if r is None:
            r = self.bin[k] = (z3.If(c, a, b), (c, a, b))
        return r[0]

    def app(self, f, *args):
        k = ('app', f.name(), tuple(tid(a) for a in args))
        r = self.bin.get(k)
        if r is None:
            r = self.bin[k] = (f(*args), args)
        return r[0]


M = _Memo()
TRUE = z3.BoolVal(True)
FALSE = z3.BoolVal(False)


def tid(e):
    """ast id of a term, cached on the Python wrapper object"""
    try:
        return e._sid
    except AttributeError:
        i = e._sid = e.get_id()
        return i


TRUE_ID = tid(TRUE)
FALSE_ID = tid(FALSE)
_NOT_CHILD = {}      # id of Not(x) -> x, for terms built through the memo


import os as _os
_TWIN = _os.environ.get('VERIF_TWIN') or None
_DUMP = _os.environ.get('VERIF_DUMP_SMT') or None
_DUMP_EVERY = int(_os.environ.get('VERIF_DUMP_EVERY', '50'))


def _crc(e):
    import zlib
    return zlib.crc32(e.sexpr().encode())


class Engine:
    """One engine per process.  `explore` runs harness(engine) once per
    feasible path."""
    cur = None
    symbolic = True

    def __init__(self, seed=0, timeout_ms=20000):
        self.solver = z3.Solver()
        self.solver.set('timeout', timeout_ms)
        self.solver.set('random_seed', seed & 0x7fffffff)
        self.seed = seed
        self._cref = self.solver.ctx.ref()
        self._sref = self.solver.solver
        self._bounds = {}
        self.stats = Stats()
        self.worklist = []
        self.forced = []
        self.trail = []
        self.known = {}
        self.occ = {}
        self.path_vars = []
        self.violations = {}     # sig -> dict(count, model, info, check)
        self.witnesses = {}      # name -> count
        self.samples = []
        self.assumes = {}
        self.bfs = False
        self.notes = {}
        self.path_info = {}
        self.max_samples = 4
        self.base_asserted = set()
        self.terms_by_id = {}
        self.xcheck_every = 0        # concolic cross-check of every n-th completed path (0 = off)
        self.xchecks = 0
        self.real_models = []        # models of completed paths handed to the runner for real-OS validation
        self.real_models_wanted = 0
        Engine.cur = self

    # ------------------------------------------------------------ solver
    def _assert(self, e):
        z3.Z3_solver_assert(self._cref, self._sref, e.ast)

    def _check(self, *assumptions):
        t = time.perf_counter()
        r = self.solver.check(*assumptions)
        self.stats.solver_s += time.perf_counter() - t
        return r

    def _feasible(self, lit):
        self.stats.feas_queries += 1
        r = self._check(lit)
        if r == z3.unknown:
            raise HarnessError('solver returned unknown on feasibility query: %s' % self.solver.reason_unknown())
        return r == z3.sat

    # ------------------------------------------------------------ variables
    def _name(self, name):
        c = self.occ.get(name, 0)
        self.occ[name] = c + 1
        return '%s#%d' % (name, c) if c else name

    def fresh_int(self, name, lo=None, hi=None):
        from .proxies import SymInt
        n = self._name(name)
        v = M.const(n, 'i')
        self.path_vars.append((n, v))
        if lo is not None or hi is not None:
            bk = (n, lo, hi)
            b = self._bounds.get(bk)
            if b is None:
                b = []
                if lo is not None:
                    b.append(M.op2('<=', M.intval(lo), v))
                if hi is not None:
                    b.append(M.op2('<=', v, M.intval(hi)))
                self._bounds[bk] = b
            for c in b:
                self._assert(c)
        return SymInt(v)

    def fresh_bool(self, name):
        from .proxies import SymBool
        n = self._name(name)
        v = M.const(n, 'b')
        self.path_vars.append((n, v))
        return SymBool(v)

    def fresh_str(self, name):
        from .proxies import SymStr, str_domain
        n = self._name(name)
        v = M.const(n, 'i')
        self.path_vars.append((n, v))
        for c in str_domain(v):
            self.solver.add(c)
        return SymStr(v)

    def fresh_float(self, name):
        """An integer-valued double float(i), |i| <= 2**53."""
        from .proxies import SymFloat
        n = self._name(name)
        v = M.const(n, 'i')
        self.path_vars.append((n, v))
        self.solver.add(M.op2('<=', M.intval(-2 ** 53), v))
        self.solver.add(M.op2('<=', v, M.intval(2 ** 53)))
        return SymFloat(v)

    def constrain(self, cond):
        """Domain constraint (a SymBool or bool) asserted without a feasibility
        query; part of the declared input space, not a path decision."""
        if getattr(type(cond), '_is_sym', False):
            self._assert(cond.e)
        elif not cond:
            raise PathAbort()

    def size_of(self, cid):
        from .proxies import size_of
        return size_of(cid)

    def hash_of(self, cid):
        from .proxies import SymHash, _unwrap
        return SymHash(_unwrap(cid))

    def pos_of(self, cid):
        from .proxies import pos_of
        return pos_of(cid)

    def prefix_hash_of(self, cid, k):
        """digest of the first k bytes (k a concrete int) of content cid in the chunked content model"""
        from .proxies import SymHash, _unwrap, pos_of
        c = _unwrap(cid)
        inside = M.op2('<', _unwrap(pos_of(cid)), M.intval(k))
        return SymHash((M.intval(k), inside, M.ite(inside, c, M.intval(0))))

    def register_literals(self, lits):
        from .proxies import register_literals
        register_literals(lits)

    def lit(self, s):
        """A string literal as the code under test would produce it: a plain
        str (its hash must agree with literals created inside the library);
        renderings of integers are the only literals that are symbolic atoms."""
        from .proxies import lit, _INT_RE, _FLT_RE
        if _INT_RE.match(s) or (_FLT_RE.match(s) and s != '-0.0'):
            return lit(s)
        return s

    def repr_int(self, x):
        """The string repr(x) of an int-like value, as a SymStr."""
        from .proxies import SymStr, repr_int_atom, _unwrap
        return SymStr(repr_int_atom(_unwrap(x)))

    def repr_float(self, x):
        from .proxies import sym_repr
        return sym_repr(x)

    def special_float(self, f):
        from .proxies import SymFloat
        return SymFloat(None, f)

    def repr_fn(self):
        from .proxies import sym_repr
        return sym_repr

    def add(self, *exprs):
        """Assert raw z3 constraints on this path (domain constraints)."""
        self.solver.add(*exprs)

    # ------------------------------------------------------------ decisions
    def decide(self, e):
        """Branch on z3 Bool term e; returns a Python bool."""
        key = tid(e)
        if key == TRUE_ID:
            return True
        if key == FALSE_ID:
            return False
        neg = False
        while key in _NOT_CHILD:
            e = _NOT_CHILD[key]
            key = tid(e)
            neg = not neg
            if key == TRUE_ID:
                return not neg
            if key == FALSE_ID:
                return neg
        hit = self.known.get(key)
        if hit is not None:
            return hit[0] != neg
        i = len(self.trail)
        self.terms_by_id[key] = e
        if i < len(self.forced):
            v, guard = self.forced[i]
            if guard is not None:
                if guard.__class__ is tuple:
                    if guard[1] != _crc(e):
                        raise HarnessError('nondeterministic re-execution at shipped decision %d' % i)
                elif guard != key:
                    raise HarnessError('nondeterministic re-execution at decision %d' % i)
        else:
            ne = M.op1('not', e)
            can_t = self._feasible(e)
            can_f = self._feasible(ne)
            if can_t and can_f:
                first = True if not (self.seed & 1) else False
                self.worklist.append(self.trail + [(not first, key)])
                self.stats.forks += 1
                v = first
            elif can_t:
                v = True
            elif can_f:
                v = False
            else:
                raise PathAbort()
        self.trail.append((v, key))
        self._assert(e if v else M.op1('not', e))
        self.known[key] = (v, e)
        self.stats.decisions += 1
        return v != neg

    def choose(self, name, n, lo=0):
        """A finite-domain hole with values lo..lo+n-1: a named Int variable
        concretised by a chain of decisions."""
        if n <= 1:
            return lo
        v = self.fresh_int(name, lo, lo + n - 1).e
        if n > 8:
            # large domains: binary search (log n decisions per path instead of n)
            a, b = lo, lo + n - 1
            while a < b:
                mid = (a + b) // 2
                if self.decide(M.op2('<=', v, M.intval(mid))):
                    b = mid
                else:
                    a = mid + 1
            return a
        for k in range(lo, lo + n - 1):
            if self.decide(M.op2('==', v, M.intval(k))):
                return k
        return lo + n - 1

    def concretize(self, symint, lo, hi):
        """Concretise an existing SymInt into [lo, hi] by forking."""
        e = symint.e
        for k in range(lo, hi):
            if self.decide(M.op2('==', e, M.intval(k))):
                return k
        return hi

    def assume(self, cond, why):
        self.assumes[why] = self.assumes.get(why, 0) + 1
        if not getattr(type(cond), '_is_sym', False):
            if not cond:
                raise PathAbort()
            return
        e = cond.e
        if z3.is_true(e):
            return
        self.solver.add(e)
        self.stats.feas_queries += 1
        r = self._check()
        if r == z3.unknown:
            raise HarnessError('unknown in assume')
        if r != z3.sat:
            raise PathAbort()

    # ------------------------------------------------------------ obligations
    def check(self, name, cond, sig=None, info=None, fatal=True):
        """End-of-path (or mid-path) obligation: cond must be valid under the
        path condition.  On a counterexample the violation is recorded with a
        model; the path continues under the assumption that cond holds, or
        ends if cond is unsatisfiable."""
        self.stats.obligations += 1
        if _TWIN is not None and name == _TWIN:
            cond = False          # vacuity twin: this obligation must be reported and must replay
        sym = getattr(type(cond), '_is_sym', False)
        if not sym:
            if cond:
                self.stats.discharged_concrete += 1
                return True
            self._violation(name, sig, info, None)
            if fatal:
                raise PathEnd()
            return False
        e = cond.e
        if z3.is_true(e):
            self.stats.discharged_concrete += 1
            return True
        self.stats.validity_queries += 1
        r = self._check(M.op1('not', e))
        if _DUMP and self.stats.validity_queries % _DUMP_EVERY == 1:
            self._dump_query(name, M.op1('not', e), r)
        if r == z3.unsat:
            self.stats.discharged += 1
            return True
        if r == z3.unknown:
            raise HarnessError('solver returned unknown on validity query %s' % name)
        self._violation(name, sig, info, self._replayable_model(M.op1('not', e)))
        # continue under cond, if possible
        self.solver.add(e)
        if self._check() != z3.sat:
            raise PathEnd()
        return False

    def _dump_query(self, name, neg, verdict):
        """Write PC and the negated obligation as SMT-LIB2 (for diffing z3's verdict with cvc5)."""
        import os
        d = _DUMP
        os.makedirs(d, exist_ok=True)
        n = len(os.listdir(d))
        if n >= 400:
            return
        s2 = z3.Solver()
        s2.add(*self.solver.assertions())
        s2.add(neg)
        with open(os.path.join(d, 'q%05d_%d_%s.smt2' % (n, os.getpid(), str(verdict))), 'w') as f:
            f.write('; obligation %s, z3 verdict %s\n(set-logic ALL)\n' % (name, verdict))
            f.write(s2.to_smt2())

    def holds(self, cond):
        """Is cond valid under the path condition?  Nothing is recorded."""
        if not getattr(type(cond), '_is_sym', False):
            return bool(cond)
        self.stats.validity_queries += 1
        r = self._check(M.op1('not', cond.e))
        if r == z3.unknown:
            raise HarnessError('solver returned unknown on validity query (holds)')
        return r == z3.unsat

    def _violation(self, name, sig, info, model):
        key = (name,) + tuple(sig or ())
        rec = self.violations.get(key)
        if rec is None:
            if model is None:
                model = self._replayable_model(None)
            rec = self.violations[key] = {
                'check': name, 'sig': list(key), 'count': 0, 'info': info,
                'model': self.model_dict(model), 'path_info': dict(self.path_info)}
        rec['count'] += 1

    def _replayable_model(self, neg):
        """A model of PC (and neg) that can be realised on a real file system:
        file sizes large enough to hold distinguishable contents."""
        self.solver.push()
        try:
            if neg is not None:
                self.solver.add(neg)
            extra = [M.op2('<=', M.intval(12), t) for (fn, arg, t) in self.fn_apps.values() if fn == 'SZ']
            extra += [M.op2('<=', t, M.intval(4096)) for (fn, arg, t) in self.fn_apps.values() if fn == 'SZ']
            if extra:
                self.solver.push()
                self.solver.add(*extra)
                r = self._check()
                if r == z3.sat:
                    m = self.solver.model()
                    self.solver.pop()
                    return m
                self.solver.pop()
            if self._check() != z3.sat:
                raise HarnessError('no model for a recorded violation')
            return self.solver.model()
        finally:
            self.solver.pop()

    def model_dict(self, model=None):
        if model is None:
            if self._check() != z3.sat:
                raise HarnessError('no model')
            model = self.solver.model()
        out = {}
        for n, v in self.path_vars:
            x = model.eval(v, model_completion=True)
            if z3.is_int_value(x):
                out[n] = x.as_long()
            elif z3.is_true(x):
                out[n] = True
            elif z3.is_false(x):
                out[n] = False
            else:
                out[n] = str(x)
        # uninterpreted functions used on this path (SZ, S, ...)
        from . import proxies
        out.update(proxies.eval_functions(model, self))
        return out

    def witness(self, name):
        self.witnesses[name] = self.witnesses.get(name, 0) + 1

    def sample(self, obj):
        if len(self.samples) < self.max_samples:
            import json
            self.samples.append(json.loads(json.dumps(obj, default=repr)))

    def note(self, key, n=1):
        self.notes[key] = self.notes.get(key, 0) + n

    def export_prefix(self, prefix):
        """Make a decision prefix portable to another process (ast ids are
        process-local; ship a crc of the term's s-expression instead)."""
        out = []
        for v, g in prefix:
            if g is not None and g.__class__ is not tuple:
                g = ('c', _crc(self.terms_by_id[g]))
            out.append((v, g))
        return out

    # ------------------------------------------------------------ exploration
    def run_path(self, harness, forced):
        self.forced = forced
        self.trail = []
        self.known = {}
        self.occ = {}
        self.path_vars = []
        self.path_info = {}
        self.fn_apps = {}
        self.solver.push()
        try:
            nviol = sum(v['count'] for v in self.violations.values())
            harness(self)
            self.stats.paths_completed += 1
            if nviol == sum(v['count'] for v in self.violations.values()):
                self._after_clean_path(harness)
        except PathAbort:
            self.stats.paths_aborted += 1
        except PathEnd:
            self.stats.paths_completed += 1
        except (Unsupported, Unmodelled) as e:
            # a modelling gap on this path only: no verdict for the path, the exploration goes on (exit 3 unless a
            # replayed counterexample turns up elsewhere)
            self.note('inconclusive-path: %s: %s' % (type(e).__name__, str(e)[:100]))
        except Exception as e:
            # an exception neither the harness nor the property expects on this path (typically the code under test doing
            # something to a proxy that real values would survive, or a harness bug): no verdict for the path
            import traceback
            tb = traceback.extract_tb(e.__traceback__)
            where = '%s:%d' % (tb[-1].filename.rsplit('/', 1)[-1], tb[-1].lineno) if tb else '?'
            self.note('inconclusive-path: unexpected %s at %s: %s' % (type(e).__name__, where, str(e)[:80]))
        finally:
            self.solver.pop()
        self.stats.paths += 1
        if len(self.trail) > self.stats.max_decisions_on_path:
            self.stats.max_decisions_on_path = len(self.trail)

    def _after_clean_path(self, harness):
        """Concolic cross-check: re-run the harness without proxies on a concrete
        instance of this path's model (in-memory model FS); every obligation must
        hold there too.  A failure means a proxy or the engine is wrong: harness
        error, never a verdict."""
        n = self.stats.paths_completed
        want_real = len(self.real_models) < self.real_models_wanted
        do_x = bool(self.xcheck_every) and (n <= 10 or n % self.xcheck_every == 0)
        if not want_real and not do_x:
            return
        model = self.model_dict(self._replayable_model(None))
        if want_real:
            self.real_models.append({'model': model, 'path_info': dict(self.path_info)})
        if do_x:
            from .concrete import ConcreteEngine
            ce = ConcreteEngine(model)
            ce.sandbox = None
            ce.run(harness)
            Engine.cur = self
            self.xchecks += 1
            if ce.failures:
                # the symbolic run passed, the concrete run of the same path on the model fails: either a proxy / model
                # inaccuracy or a real counterexample the symbolic semantics missed.  Never a verdict by itself: the
                # runner replays it on the real OS (reproduced -> violation, otherwise inconclusive).
                fl = ce.failures[0]
                key = tuple(str(x) for x in fl['sig']) + ('concolic',)
                rec = self.violations.get(key)
                if rec is None:
                    rec = self.violations[key] = {
                        'check': fl['check'], 'sig': list(fl['sig']), 'count': 0, 'info': fl.get('info'), 'model': model,
                        'path_info': dict(self.path_info),
                        'origin': 'concolic cross-check: holds on the symbolic path, fails for its concrete model instance'}
                rec['count'] += 1
                self.note('concolic-divergence')

    def explore(self, harness, max_paths=None, deadline=None):
        Engine.cur = self
        n = 0
        while self.worklist:
            if max_paths is not None and n >= max_paths:
                break
            if deadline is not None and time.time() > deadline:
                break
            forced = self.worklist.pop(0) if self.bfs else self.worklist.pop()
            self.run_path(harness, forced)
            n += 1
        return n

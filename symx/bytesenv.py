"""BytesEnv: the ModelFS tree logic with real byte contents (io.BytesIO files,
real gzip / json / hashlib on in-memory bytes).  Used to run the repository's
own test-suite against the environment model (model validation, DESIGN 5.4)."""
import gzip as _gzip
import io
import itertools
import os as _os
import posixpath
import stat as _stat
import types

from .env import NS, BaseEnv
from .fs import ModelFS, Node, ABSENT, FILE, DIR, DIR_SIZE, oserr


class _Eng:
    """Minimal engine for a purely concrete ModelFS."""
    symbolic = False

    def __init__(self):
        self.n = itertools.count(1)

    def fresh_int(self, name, lo=None, hi=None):
        return next(self.n)

    def size_of(self, cid):
        return 0


class BytesEnv(BaseEnv):
    real = False

    def __init__(self, cwd='/work'):
        super().__init__()
        self.fs = ModelFS(_Eng(), cwd)
        self.fs.cwd = cwd
        self.clock = itertools.count(1_700_000_000_000_000_000, 1_000_003)
        self._build()

    def _p(self, p):
        p = _os.fsdecode(p)
        return posixpath.normpath(posixpath.join(self.fs.cwd, p))

    def _build(self):
        fs, P = self.fs, self._p

        def st(p):
            n = fs.lookup(P(p))
            if n.kind == DIR:
                return types.SimpleNamespace(st_mode=_stat.S_IFDIR | 0o755, st_size=DIR_SIZE, st_mtime_ns=0, st_atime_ns=0,
                                             st_mtime=0.0, st_atime=0.0, st_ino=n.ino)
            return types.SimpleNamespace(st_mode=_stat.S_IFREG | 0o644, st_size=len(n.payload or b''), st_mtime_ns=n.mtime,
                                         st_atime_ns=n.mtime, st_mtime=n.mtime / 1e9, st_atime=n.mtime / 1e9, st_ino=n.ino)

        def utime(p, times=None, *, ns=None):
            n = fs.lookup(P(p))
            if ns is not None:
                n.mtime = ns[1]
            elif times is not None:
                n.mtime = int(times[1] * 1e9)
            else:
                n.mtime = next(self.clock)

        path = NS('os.path', isfile=lambda p: fs.is_kind(P(p), FILE), isdir=lambda p: fs.is_kind(P(p), DIR),
                  exists=lambda p: not fs.is_kind(P(p), ABSENT), lexists=lambda p: not fs.is_kind(P(p), ABSENT),
                  islink=lambda p: False, getsize=lambda p: st(p).st_size, getmtime=lambda p: st(p).st_mtime,
                  abspath=P, dirname=posixpath.dirname, basename=posixpath.basename, join=posixpath.join,
                  split=posixpath.split, normcase=posixpath.normcase, normpath=posixpath.normpath, isabs=posixpath.isabs,
                  splitext=posixpath.splitext, sep='/',
                  relpath=lambda p, start=None: posixpath.relpath(P(p), P(start if start is not None else '.')))

        def symlink(*a, **k):
            raise NotImplementedError('symlinks are not modelled')

        self.os = NS('os', path=path, name='posix', sep='/', stat=st, lstat=st, utime=utime,
                     listdir=lambda p='.': fs.listdir(P(p)), mkdir=lambda p, mode=0o777: fs.mkdir(P(p)),
                     makedirs=lambda p, mode=0o777, exist_ok=False: fs._makedirs(P(p), exist_ok),
                     rename=lambda a, b: fs.rename(P(a), P(b)), replace=lambda a, b: fs.rename(P(a), P(b)),
                     rmdir=lambda p: fs.rmdir(P(p)), remove=lambda p: fs.remove(P(p)), unlink=lambda p: fs.remove(P(p)),
                     fsdecode=_os.fsdecode, fsencode=_os.fsencode, fspath=_os.fspath, getcwd=lambda: fs.cwd,
                     symlink=symlink, PathLike=_os.PathLike, strerror=_os.strerror, error=OSError)

        env = self

        def fopen(p, mode='r', *a, **kw):
            p = P(p)
            enc = kw.get('encoding') or 'utf-8'
            if 'r' in mode and '+' not in mode:
                n = fs.open_read(p)
                raw = io.BytesIO(n.payload or b'')
                return raw if 'b' in mode else io.TextIOWrapper(raw, encoding=enc, newline=kw.get('newline'))
            fs.parent_dir(p)
            k = fs.kind(p)
            if k == DIR:
                raise oserr(21, p)
            old = fs.nodes[p].payload if k == FILE and 'a' in mode else b''
            if k == FILE:
                n = fs.nodes[p]
            else:
                n = fs.nodes[p] = Node(FILE, cid=0, mtime=0, ino=fs._ino())
            n.payload = old or b''
            n.mtime = next(env.clock)

            class W(io.BytesIO):
                def flush(s):
                    n.payload = s.getvalue()
                    n.mtime = next(env.clock)

                def close(s):
                    if not s.closed:
                        s.flush()
                    super().close()

            raw = W()
            raw.write(old or b'')
            return raw if 'b' in mode else io.TextIOWrapper(raw, encoding=enc, newline=kw.get('newline'))

        self.open = fopen

        def gopen(p, mode='rb', **kw):
            if 'r' in mode:
                raw = fopen(p, 'rb')
                g = _gzip.GzipFile(fileobj=raw, mode='rb')
                return io.TextIOWrapper(g, encoding='utf-8') if 't' in mode else g
            raw = fopen(p, 'wb')
            g = _gzip.GzipFile(fileobj=raw, mode='wb')

            class T(io.TextIOWrapper):
                def close(s):
                    if not s.closed:
                        s.flush()
                        g.close()
                        raw.close()
                    super().close()

            return T(g, encoding='utf-8') if 't' in mode else g

        self.gzip = NS('gzip', open=gopen)

        def mkdtemp(suffix=None, prefix=None, dir=None):
            d = fs.mkdtemp(prefix)
            return d

        self.tempfile = NS('tempfile', mkdtemp=mkdtemp)

        def rmtree(p, ignore_errors=False, onerror=None, **kw):
            p = P(p)
            fs.lookup(p)
            fs.rmtree(p)

        self.shutil = NS('shutil', rmtree=rmtree)

    def names(self):
        return {'os': self.os, 'open': self.open, 'gzip': self.gzip, 'tempfile': self.tempfile, 'shutil': self.shutil}

"""z3-backed value proxies.  `__class__` lies (int/bool/str/float) so that the
repo's `value.__class__ == int` / isinstance idiom behaves as for real values.
All proxies hash to one constant so dict/set/tuple-key semantics go through
__eq__ (which forks through the engine).  Any operation not implemented here
raises Unsupported (harness error), never a silent concretisation.
"""
import builtins
import re
import z3

from .common import Unsupported, HarnessError
from .engine import Engine, M, TRUE, FALSE, tid

_HASH = 7

# ---------------------------------------------------------------- functions
_I = z3.IntSort()
SZ = z3.Function('SZ', _I, _I)         # size in bytes of the content with id c
S = z3.Function('S', _I, _I)           # atom of repr(int i)
S_INV = z3.Function('S_inv', _I, _I)
SF = z3.Function('SF', _I, _I)         # atom of repr(float(i))
SF_INV = z3.Function('SF_inv', _I, _I)
POS = z3.Function('POS', _I, _I)       # offset of the one byte that distinguishes content c from every other content
TAG = z3.Function('TAG', _I, _I)       # 0 literal, 1 S-range, 2 SF-range, 3 free symbolic atoms


def _app(fn, arg, axioms):
    eng = Engine.cur
    t = M.app(fn, arg)
    k = tid(t)
    if k not in eng.fn_apps:
        eng.fn_apps[k] = (fn.name(), arg, t)
        for ax in axioms(t):
            eng.solver.add(ax)
    return t


def size_of(cid):
    """SymInt size of content id (SymInt or int)."""
    c = _unwrap(cid)
    t = _app(SZ, c, lambda t: [M.op2('<=', M.intval(0), t)])
    return SymInt(t)


def pos_of(cid):
    """Chunked content model: content c is SZ(c) bytes that are all equal to a filler byte except one byte, unique to c,
    at offset POS(c).  0 <= POS(c) < SZ(c)."""
    c = _unwrap(cid)
    sz = _unwrap(size_of(cid))
    return SymInt(_app(POS, c, lambda t: [M.op2('<=', M.intval(0), t), M.op2('<', t, sz)]))


def _s_axioms(arg, inv, tag):
    def ax(t):
        return [M.op2('==', M.app(inv, t), arg), M.op2('==', M.app(TAG, t), M.intval(tag))]
    return ax


def repr_int_atom(e):
    return _app(S, e, _s_axioms(e, S_INV, 1))


def repr_float_atom(e):
    return _app(SF, e, _s_axioms(e, SF_INV, 2))


def eval_functions(model, eng):
    out = {}
    for name, arg, t in eng.fn_apps.values():
        a = model.eval(arg, model_completion=True)
        r = model.eval(t, model_completion=True)
        if z3.is_int_value(a) and z3.is_int_value(r):
            out.setdefault('fn:' + name, []).append([a.as_long(), r.as_long()])
    return out


# ---------------------------------------------------------------- literals
_LITS = []          # sorted list of registered non-numeric literals
_LIT_ATOM = {}
_SPACING = 2 ** 20
_INT_RE = re.compile(r'^-?(0|[1-9][0-9]*)$')
_FLT_RE = re.compile(r'^-?(0|[1-9][0-9]*)\.0$')


def register_literals(lits):
    """Kept for the harnesses' sake; literal atoms no longer need registration."""


_BASE_COUNT = {}


def _lit_atom(s):
    """Integer atom of a string literal, derived from its bytes so that the
    real lexicographic order is kept (first 6 bytes, then length); literals
    the code under test introduces need no registration."""
    a = _LIT_ATOM.get(s)
    if a is None:
        b = s.encode('utf-8', 'surrogatepass')
        base = (int.from_bytes(b[:6].ljust(6, b'\0'), 'big') << 28) + (min(len(b), 4095) << 16)
        k = _BASE_COUNT.get(base, 0)
        _BASE_COUNT[base] = k + 1
        a = _LIT_ATOM[s] = base + k
    return a


def lit(s):
    """SymStr for a concrete string literal."""
    if _INT_RE.match(s):
        return SymStr(repr_int_atom(M.intval(int(s))), s)
    if _FLT_RE.match(s) and s != '-0.0':
        return SymStr(repr_float_atom(M.intval(int(s[:-2]))), s)
    a = _lit_atom(s)
    eng = Engine.cur
    t = M.intval(a)
    k = ('lit', a)
    if k not in eng.fn_apps:
        eng.fn_apps[k] = ('LIT', t, t)
        eng.solver.add(M.op2('==', M.app(TAG, t), M.intval(0)))
    return SymStr(t, s)


def str_domain(v):
    """Constraints of a fresh free string atom: it is not a keyword / numeric
    rendering unless the harness says so explicitly (TAG 3); harnesses that
    want collisions with renderings pick lit(...) or S(i) explicitly."""
    return [M.op2('==', M.app(TAG, v), M.intval(3))]


# ---------------------------------------------------------------- helpers
def _unwrap(x):
    """z3 Int term of an int-like value, else None."""
    t = type(x)
    if t is SymInt:
        return x.e
    if t is SymBool:
        return M.op1('b2i', x.e)
    if t is bool:
        return M.intval(1 if x else 0)
    if t is int:
        return M.intval(x)
    return None


def _num(x):
    """('i', term) for integer-valued numbers, ('f', float) for other floats."""
    u = _unwrap(x)
    if u is not None:
        return ('i', u)
    t = type(x)
    if t is SymFloat:
        if x.special is not None:
            f = x.special
            if f == f and f not in (float('inf'), -float('inf')) and f == int(f):
                return ('i', M.intval(int(f)))
            return ('f', f)
        return ('i', x.e)
    if t is float:
        if x == x and x not in (float('inf'), -float('inf')) and x == int(x):
            return ('i', M.intval(int(x)))
        return ('f', x)
    return None


def _num_eq(a, b):
    na, nb = _num(a), _num(b)
    if na is None or nb is None:
        return NotImplemented
    if na[0] == 'i' and nb[0] == 'i':
        if tid(na[1]) == tid(nb[1]):
            return SymBool(TRUE)
        return SymBool(M.op2('==', na[1], nb[1]))
    if na[0] == 'f' and nb[0] == 'f':
        return SymBool(TRUE if na[1] == nb[1] else FALSE)
    return SymBool(FALSE)


class _Sym:
    _is_sym = True
    __slots__ = ()

    def __hash__(self):
        return _HASH

    def __deepcopy__(self, memo):
        return self

    def __copy__(self):
        return self

    def __index__(self):
        raise Unsupported('__index__ on %r' % (self,))

    def __int__(self):
        raise Unsupported('int() on %r' % (self,))

    def __float__(self):
        raise Unsupported('float() on %r' % (self,))

    def __format__(self, spec):
        raise Unsupported('format on %r' % (self,))

    def __iter__(self):
        if type(self) in _NUMERIC_PROXIES:
            # what CPython does for the real value
            raise TypeError("'%s' object is not iterable" % self.__class__.__name__)
        raise Unsupported('iter on %r' % (self,))

    def __len__(self):
        if type(self) in _NUMERIC_PROXIES:
            raise TypeError("object of type '%s' has no len()" % self.__class__.__name__)
        raise Unsupported('len on %r' % (self,))


class SymBool(_Sym):
    __slots__ = ('e',)

    def __init__(self, e):
        self.e = e

    @property
    def __class__(self):
        return bool

    def __bool__(self):
        return Engine.cur.decide(self.e)

    def __eq__(self, o):
        return _num_eq(self, o)

    def __ne__(self, o):
        r = _num_eq(self, o)
        return r if r is NotImplemented else r.neg()

    __hash__ = _Sym.__hash__

    # logic (used by symx.logic, never by the code under test)
    def neg(self):
        return SymBool(M.op1('not', self.e))

    def conj(self, others):
        e = self.e
        for o in others:
            e = M.op2('and', e, o.e)
        return SymBool(e)

    def disj(self, others):
        e = self.e
        for o in others:
            e = M.op2('or', e, o.e)
        return SymBool(e)

    def implies(self, o):
        return SymBool(M.op2('=>', self.e, o.e))

    def __repr__(self):
        return 'SymBool(%s)' % self.e


def _cmp(a, b, op, swap=False):
    ua, ub = _unwrap(a), _unwrap(b)
    if ua is None or ub is None:
        na, nb = _num(a), _num(b)
        if na is None or nb is None:
            return NotImplemented
        if na[0] != 'i' or nb[0] != 'i':
            raise Unsupported('ordering with non-integer float')
        ua, ub = na[1], nb[1]
    if op == '<':
        return SymBool(M.op2('<', ua, ub))
    if op == '<=':
        return SymBool(M.op2('<=', ua, ub))
    if op == '>':
        return SymBool(M.op2('<', ub, ua))
    return SymBool(M.op2('<=', ub, ua))


class SymInt(_Sym):
    __slots__ = ('e',)

    def __init__(self, e):
        self.e = e

    @property
    def __class__(self):
        return int

    def __bool__(self):
        return Engine.cur.decide(M.op1('not', M.op2('==', self.e, M.intval(0))))

    def __eq__(self, o):
        return _num_eq(self, o)

    def __ne__(self, o):
        r = _num_eq(self, o)
        return r if r is NotImplemented else r.neg()

    __hash__ = _Sym.__hash__

    def __lt__(self, o):
        return _cmp(self, o, '<')

    def __le__(self, o):
        return _cmp(self, o, '<=')

    def __gt__(self, o):
        return _cmp(self, o, '>')

    def __ge__(self, o):
        return _cmp(self, o, '>=')

    def __add__(self, o):
        b = _unwrap(o)
        return NotImplemented if b is None else SymInt(M.op2('+', self.e, b))

    __radd__ = __add__

    def __sub__(self, o):
        b = _unwrap(o)
        return NotImplemented if b is None else SymInt(M.op2('-', self.e, b))

    def __rsub__(self, o):
        b = _unwrap(o)
        return NotImplemented if b is None else SymInt(M.op2('-', b, self.e))

    def __neg__(self):
        return SymInt(M.op1('neg', self.e))

    def __mul__(self, o):
        if type(o) is not int:
            raise Unsupported('symbolic * non-constant')
        return SymInt(M.op2('*', self.e, M.intval(o)))

    __rmul__ = __mul__

    def __floordiv__(self, o):
        if type(o) is not int or o <= 0:
            raise Unsupported('// by non-positive-constant')
        return SymInt(M.op2('div', self.e, M.intval(o)))

    def __mod__(self, o):
        if type(o) is not int or o <= 0:
            raise Unsupported('% by non-positive-constant')
        return SymInt(M.op2('mod', self.e, M.intval(o)))

    def __repr__(self):
        return 'SymInt(%s)' % self.e


class SymFloat(_Sym):
    """float(e) for an Int term e with |e| <= 2**53, or a wrapped concrete
    special (-0.0, 0.5, inf, 1e300, ...)."""
    __slots__ = ('e', 'special')

    def __init__(self, e, special=None):
        self.e = e
        self.special = special

    @property
    def __class__(self):
        return float

    def __bool__(self):
        n = _num(self)
        if n[0] == 'f':
            return bool(n[1])
        return Engine.cur.decide(M.op1('not', M.op2('==', n[1], M.intval(0))))

    def __eq__(self, o):
        return _num_eq(self, o)

    def __ne__(self, o):
        r = _num_eq(self, o)
        return r if r is NotImplemented else r.neg()

    __hash__ = _Sym.__hash__

    def __lt__(self, o):
        return _cmp(self, o, '<')

    def __le__(self, o):
        return _cmp(self, o, '<=')

    def __gt__(self, o):
        return _cmp(self, o, '>')

    def __ge__(self, o):
        return _cmp(self, o, '>=')

    def __neg__(self):
        if self.special is not None:
            return SymFloat(None, -self.special)
        raise Unsupported('neg of symbolic float')

    def __float__(self):
        if self.special is not None:
            return self.special         # a wrapped concrete float: float(x) is that float
        raise Unsupported('float() on %r' % (self,))

    def __repr__(self):
        return 'SymFloat(%s)' % (self.e if self.special is None else self.special,)


_NUMERIC_PROXIES = (SymBool, SymInt, SymFloat)


class SymStr(_Sym):
    """A string as an ordered integer atom."""
    __slots__ = ('e', 'text')

    def __init__(self, e, text=None):
        self.e = e
        self.text = text

    @property
    def __class__(self):
        return str

    def _other(self, o):
        if type(o) is SymStr:
            return o.e
        if type(o) is str:
            return lit(o).e
        return None

    def __eq__(self, o):
        b = self._other(o)
        if b is None:
            return NotImplemented
        if tid(b) == tid(self.e):
            return SymBool(TRUE)
        return SymBool(M.op2('==', self.e, b))

    def __ne__(self, o):
        r = self.__eq__(o)
        return r if r is NotImplemented else r.neg()

    __hash__ = _Sym.__hash__

    def _ord(self, o, op):
        b = self._other(o)
        if b is None:
            return NotImplemented
        a = self.e
        if op == '<':
            return SymBool(M.op2('<', a, b))
        if op == '<=':
            return SymBool(M.op2('<=', a, b))
        if op == '>':
            return SymBool(M.op2('<', b, a))
        return SymBool(M.op2('<=', b, a))

    def __lt__(self, o):
        return self._ord(o, '<')

    def __le__(self, o):
        return self._ord(o, '<=')

    def __gt__(self, o):
        return self._ord(o, '>')

    def __ge__(self, o):
        return self._ord(o, '>=')

    def __bool__(self):
        raise Unsupported('truth value of a symbolic string')

    def __repr__(self):
        return 'SymStr(%s%s)' % (self.e, '' if self.text is None else ' %r' % self.text)


class SymHash(_Sym):
    """sha-256 hex digest of a content id: injective in the id."""
    __slots__ = ('e',)

    def __init__(self, e):
        self.e = e

    @property
    def __class__(self):
        return str

    def __eq__(self, o):
        if type(o) is not SymHash:
            if type(o) is str or getattr(type(o), '_is_sym', False):
                return SymBool(FALSE)
            return NotImplemented
        a, b = self.e, o.e
        if type(a) is tuple or type(b) is tuple:
            # digest of a prefix: (covered length, distinguishing byte inside?, content id if inside else 0)
            if type(a) is not tuple or type(b) is not tuple:
                raise HarnessError('SymHash: prefix digest compared with a whole-content digest')
            from . import logic as L
            return L.and_(*[SymBool(TRUE) if tid(x) == tid(y) else SymBool(M.op2('==', x, y)) for x, y in zip(a, b)])
        if tid(o.e) == tid(self.e):
            return SymBool(TRUE)
        return SymBool(M.op2('==', self.e, o.e))

    def __ne__(self, o):
        r = self.__eq__(o)
        return r if r is NotImplemented else r.neg()

    __hash__ = _Sym.__hash__

    def __repr__(self):
        return 'SymHash(%s)' % self.e


def sym_repr(x):
    """Proxy-aware repr, bound as `repr` into file_builder.json_util."""
    t = type(x)
    if t is SymInt:
        return SymStr(repr_int_atom(x.e))
    if t is SymBool:
        raise Unsupported('repr of symbolic bool')
    if t is SymFloat:
        if x.special is not None:
            return lit(builtins.repr(x.special))
        return SymStr(repr_float_atom(x.e))
    if t is SymStr:
        raise Unsupported('repr of symbolic str')
    return builtins.repr(x)

"""Rebind environment names in the file_builder modules, by identity, from the
outside (no source change).  Every non-test module of the package is scanned;
globals that are the real os / gzip / json / hashlib / tempfile / shutil /
threading modules (or functions of those imported by name) are replaced by
their counterparts in the environment."""
import builtins
import gzip
import hashlib
import importlib
import json
import os
import pkgutil
import shutil
import sys
import tempfile
import threading

from .common import Unmodelled

_REAL = {'os': os, 'gzip': gzip, 'json': json, 'hashlib': hashlib, 'tempfile': tempfile, 'shutil': shutil,
         'threading': threading}
_saved = []


_MODS = None


def repo_modules():
    global _MODS
    if _MODS is not None:
        return _MODS
    import file_builder
    mods = _MODS = [file_builder]
    for info in pkgutil.iter_modules(file_builder.__path__):
        if info.ispkg:
            continue
        mods.append(importlib.import_module('file_builder.' + info.name))
    return mods


def _by_name_table(names):
    """real function object id -> replacement, for `from os import mkdir`-style imports."""
    table = {}
    for modname, real in _REAL.items():
        rep = names.get(modname)
        if rep is None:
            continue
        for attr in dir(real):
            if attr.startswith('_'):
                continue
            obj = getattr(real, attr)
            if callable(obj) and not isinstance(obj, type):
                table[id(obj)] = (rep, attr, modname)
    rep = names.get('os')
    if rep is not None:
        table[id(os.path)] = (rep, 'path', 'os')
        for attr in dir(os.path):
            obj = getattr(os.path, attr)
            if callable(obj) and not attr.startswith('_'):
                table[id(obj)] = (rep.path, attr, 'os.path')
    return table


_PLAN = None


def _plan():
    """[(module, key, ('mod', modname) | ('attr', modname, attr))] computed once
    per process from the real modules' globals."""
    global _PLAN
    if _PLAN is not None:
        return _PLAN
    plan = []
    names_all = {k: True for k in _REAL}
    table = {}
    for modname, real in _REAL.items():
        for attr in dir(real):
            if attr.startswith('_'):
                continue
            obj = getattr(real, attr)
            if callable(obj) and not isinstance(obj, type):
                table[id(obj)] = (modname, attr)
    table[id(os.path)] = ('os', 'path')
    for attr in dir(os.path):
        obj = getattr(os.path, attr)
        if callable(obj) and not attr.startswith('_'):
            table[id(obj)] = ('os.path', attr)
    for m in repo_modules():
        for k, v in list(vars(m).items()):
            if k.startswith('__'):
                continue
            hit = None
            for modname, real in _REAL.items():
                if v is real:
                    hit = ('mod', modname)
            if hit is None and callable(v) and id(v) in table:
                hit = ('attr',) + table[id(v)]
            if hit is not None:
                plan.append((m, k, v, hit))
    _PLAN = plan
    return plan


def bind(env, extra=None):
    """Bind env (ModelEnv/RealEnv) into all repo modules (cached plan)."""
    unbind()
    names = dict(env.names())
    if extra:
        names.update(extra)
    for m, k, orig, hit in _plan():
        if hit[0] == 'mod':
            new = names.get(hit[1])
            if new is None:
                continue
        else:
            base = hit[1]
            rep = names.get('os') if base in ('os', 'os.path') else names.get(base)
            if rep is None:
                continue
            if base == 'os.path':
                rep = rep.path
            try:
                new = getattr(rep, hit[2])
            except AttributeError:
                raise Unmodelled('%s.%s imported by name in %s' % (base, hit[2], m.__name__))
        _saved.append((m, k, orig, True))
        setattr(m, k, new)
    for m in repo_modules():
        for k in ('open', 'repr'):
            if k in names:
                had = k in vars(m)
                _saved.append((m, k, vars(m).get(k), had))
                setattr(m, k, names[k])
    fb = sys.modules['file_builder.file_builder']
    _saved.append((fb.FileBuilder, '_IS_WINDOWS', fb.FileBuilder._IS_WINDOWS, True))
    fb.FileBuilder._IS_WINDOWS = False


def bind_slow(env, extra=None):
    """Bind env (ModelEnv/RealEnv) into all repo modules.  extra: dict of
    additional module-global bindings {name: value} applied to every module
    (e.g. threading, repr)."""
    unbind()
    names = dict(env.names())
    if extra:
        names.update(extra)
    table = _by_name_table(names)
    for m in repo_modules():
        for k, v in list(vars(m).items()):
            if k.startswith('__'):
                continue
            new = None
            for modname, real in _REAL.items():
                if v is real and modname in names:
                    new = names[modname]
            if new is None and id(v) in table and callable(v):
                rep, attr, modname = table[id(v)]
                try:
                    new = getattr(rep, attr)
                except AttributeError:
                    raise Unmodelled('%s.%s imported by name in %s' % (modname, attr, m.__name__))
            if new is not None:
                _saved.append((m, k, v, True))
                setattr(m, k, new)
        for k in ('open', 'repr'):
            if k in names:
                had = k in vars(m)
                _saved.append((m, k, vars(m).get(k), had))
                setattr(m, k, names[k])
    fb = sys.modules['file_builder.file_builder']
    _saved.append((fb.FileBuilder, '_IS_WINDOWS', fb.FileBuilder._IS_WINDOWS, True))
    fb.FileBuilder._IS_WINDOWS = False


def bind_names(names):
    """Bind plain module-global names (e.g. repr) into every repo module."""
    for m in repo_modules():
        for k, v in names.items():
            had = k in vars(m)
            _saved.append((m, k, vars(m).get(k), had))
            setattr(m, k, v)


def unbind():
    while _saved:
        m, k, v, had = _saved.pop()
        if had:
            setattr(m, k, v)
        else:
            try:
                delattr(m, k)
            except AttributeError:
                pass

"""Mode-agnostic condition builders (z3-free): arguments are Python bools or
SymBool proxies; structural equality over JSON-like values whose leaves may be
proxies."""
from .common import is_sym


def and_(*xs):
    syms = []
    for x in xs:
        if is_sym(x):
            syms.append(x)
        elif not x:
            return False
    if not syms:
        return True
    return syms[0].conj(syms[1:])


def or_(*xs):
    syms = []
    for x in xs:
        if is_sym(x):
            syms.append(x)
        elif x:
            return True
    if not syms:
        return False
    return syms[0].disj(syms[1:])


def not_(x):
    if is_sym(x):
        return x.neg()
    return not x


def implies(a, b):
    return or_(not_(a), b)


def iff(a, b):
    return and_(implies(a, b), implies(b, a))


def _leaf_eq(a, b):
    r = (a == b)
    if r is NotImplemented:
        return False
    if is_sym(r):
        return r
    return bool(r)


def eq(a, b, exact_types=False):
    """Structural equality (lists = tuples unless exact_types) -> bool | SymBool."""
    ta, tb = type(a), type(b)
    if ta in (list, tuple) or tb in (list, tuple):
        if ta not in (list, tuple) or tb not in (list, tuple):
            return False
        if exact_types and ta is not tb:
            return False
        if len(a) != len(b):
            return False
        return and_(*[eq(x, y, exact_types) for x, y in zip(a, b)])
    if ta is dict or tb is dict:
        if ta is not dict or tb is not dict or len(a) != len(b):
            return False
        # keys are concrete strings in the FS harnesses
        if set(a.keys()) != set(b.keys()):
            return False
        return and_(*[eq(a[k], b[k], exact_types) for k in a])
    if exact_types:
        ca, cb = a.__class__, b.__class__
        if ca is not cb:
            return False
    else:
        ca, cb = a.__class__, b.__class__
        if (ca is bool) != (cb is bool):
            return False
    if a is None or b is None:
        return a is b
    return _leaf_eq(a, b)

"""Baton scheduler for the thread harnesses: user-spawned workers are real
threads, but only one runs at a time.  Every environment call the library makes
and every FakeLock acquire is a yield point; the next thread is a hole chosen
through the engine (eng.choose), pre-emptions (switching away from a thread
that could continue) are bounded.  Deadlocks are detected (every live thread
blocked on a lock).  Works with the symbolic Engine and with the
ConcreteEngine (replays: the recorded choices are in the model).
"""
import threading as _th

from .common import PathAbort, PathEnd, HarnessError

WATCHDOG_S = 90.0


class Deadlock(Exception):
    pass


class _T:
    def __init__(self, idx, fn, name):
        self.idx, self.fn, self.name = idx, fn, name
        self.sem = _th.Semaphore(0)
        self.done = False
        self.blocked_on = None
        self.exc = None
        self.result = None
        self.thread = None


class Sched:
    cur = None
    dead = False
    release_points = False      # pre-emption points also after lock releases (opt-in per family)
    # (dead:) the last scheduler ended in a deadlock: its blocked workers still hold their locks

    def __init__(self, eng, preempt_bound, lines=False):
        self.eng = eng
        self.bound = preempt_bound
        self.lines = lines           # additionally: every source line of the library executed by a worker is a yield point
        self.preempts = 0
        self.switches = 0
        self.threads = []
        self.abort = None
        self.deadlock = False
        self.main_sem = _th.Semaphore(0)
        self.trace = []
        self.running = False
        Sched.cur = self
        Sched.dead = False

    # ------------------------------------------------------------ threads
    def spawn(self, fn, name=None):
        t = _T(len(self.threads), fn, name or 't%d' % len(self.threads))
        self.threads.append(t)

        def run():
            self._wait(t.sem)
            try:
                if self.lines:
                    import sys
                    sys.settrace(self._tracer)
                if self.abort is None:
                    t.result = fn()
            except (PathAbort, PathEnd, HarnessError) as e:
                if self.abort is None:
                    self.abort = e
            except BaseException as e:
                t.exc = e
            finally:
                if self.lines:
                    import sys
                    sys.settrace(None)
            t.done = True
            self._finish(t)

        t.thread = _th.Thread(target=run, daemon=True)
        t.thread.start()
        return t

    def _tracer(self, frame, event, arg):
        fn = frame.f_code.co_filename
        if '/file_builder/' not in fn or '/test/' in fn or '/verif/' in fn:
            return None
        return self._line_tracer

    def _line_tracer(self, frame, event, arg):
        if event == 'line' and self.running and self.preempts < self.bound:
            self.yield_point('line %s:%d' % (frame.f_code.co_filename.rsplit('/', 1)[-1], frame.f_lineno))
        return self._line_tracer

    def _wait(self, sem):
        if not sem.acquire(timeout=WATCHDOG_S):
            self.abort = HarnessError('scheduler watchdog: a thread did not get the baton within %.0f s' % WATCHDOG_S)
            raise self.abort

    def me(self):
        cur = _th.current_thread()
        for t in self.threads:
            if t.thread is cur:
                return t
        return None

    def enabled(self):
        return [t for t in self.threads if not t.done and (t.blocked_on is None or not t.blocked_on.locked_)]

    def _pick(self, cur, cur_enabled):
        en = self.enabled()
        if not en:
            return None
        if self.abort is not None:
            return en[0]
        if cur_enabled and self.preempts >= self.bound:
            return cur
        if cur_enabled:
            en = [cur] + [t for t in en if t is not cur]
        if len(en) == 1:
            return en[0]
        k = self.eng.choose('sched', len(en))
        nxt = en[k]
        if cur_enabled and nxt is not cur:
            self.preempts += 1
        return nxt

    def _finish(self, t):
        try:
            nxt = self._pick(t, False)
        except (PathAbort, PathEnd, HarnessError) as e:
            if self.abort is None:
                self.abort = e
            en = self.enabled()
            nxt = en[0] if en else None
        if nxt is None:
            if any(not x.done for x in self.threads) and self.abort is None:
                self.deadlock = True
                Sched.dead = True
            self.main_sem.release()
        else:
            self.switches += 1
            nxt.sem.release()

    def yield_point(self, what=None):
        cur = self.me()
        if cur is None or not self.running:
            return
        if self.abort is not None:
            raise PathAbort()
        nxt = self._pick(cur, True)
        if nxt is not cur:
            self.switches += 1
            self.trace.append((cur.name, what))
            nxt.sem.release()
            self._wait(cur.sem)
            if self.abort is not None:
                raise PathAbort()

    def block(self, cur, lock):
        cur.blocked_on = lock
        en = self.enabled()
        if not en:
            self.deadlock = True
            Sched.dead = True
            if self.abort is None:
                self.abort = PathEnd()
            self.main_sem.release()
            self._wait(cur.sem)
            raise PathAbort()
        nxt = self._pick(cur, False)
        self.switches += 1
        nxt.sem.release()
        self._wait(cur.sem)
        cur.blocked_on = None
        if self.abort is not None:
            raise PathAbort()

    def run_all(self):
        """From the thread that spawned the workers: run them to completion."""
        self.running = True
        try:
            first = self._pick(None, False)
            if first is None:
                return
            first.sem.release()
            self._wait(self.main_sem)
            if self.deadlock:
                raise Deadlock()
            if self.abort is not None:
                # let the remaining threads unwind
                for t in self.threads:
                    n = 0
                    while not t.done and n < 50:
                        t.sem.release()
                        self.main_sem.acquire(timeout=0.2)
                        n += 1
                a = self.abort
                raise a if isinstance(a, BaseException) else PathAbort()
        finally:
            self.running = False

    def close(self):
        if Sched.cur is self:
            Sched.cur = None


class FakeLock:
    """threading.Lock replacement owned by the scheduler."""

    def __init__(self):
        self.locked_ = False
        self.owner = None

    def acquire(self, blocking=True, timeout=-1):
        s = Sched.cur
        cur = s.me() if s is not None and s.running else None
        if cur is None:
            if self.locked_ and Sched.dead:
                # the owner is a worker of a deadlocked run and will never release it: the code that unwinds after the
                # reported deadlock (the library's rollback) takes the lock over
                return True
            if self.locked_:
                raise HarnessError('lock held outside the scheduler')
            self.locked_ = True
            return True
        s.yield_point('lock')
        while self.locked_:
            s.block(cur, self)
        self.locked_ = True
        self.owner = cur
        return True

    def release(self):
        self.locked_ = False
        self.owner = None
        if Sched.release_points:
            # families that ask for it may also be pre-empted right after a lock was released (check-then-act code that
            # finishes its "act" outside the critical section)
            s = Sched.cur
            if s is not None and s.running and s.me() is not None:
                s.yield_point('unlock')

    def locked(self):
        return self.locked_

    def __enter__(self):
        self.acquire()
        return self

    def __exit__(self, *a):
        self.release()
        return False


class FakeThreading:
    """The `threading` namespace bound into the repo's modules."""
    Lock = FakeLock
    RLock = FakeLock

    def __getattr__(self, name):
        from .common import Unmodelled
        raise Unmodelled('threading.%s is not modelled' % name)


def install(world, sched):
    """Make every environment call of `world` a yield point of `sched`."""
    def hook(op, args, mutating):
        sched.yield_point(op)
    world.env.hooks.append(hook)
    return hook

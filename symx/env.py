"""Environment namespaces bound into the file_builder modules.

ModelEnv: os / open / gzip / json / hashlib / tempfile / shutil over a ModelFS.
RealEnv : the real modules, wrapped so that the same hook points exist
          (call log for the C03 monitor, fault injection, scheduler yields).
Every environment call first goes through env.call(op, args, mutating).
"""
import errno
import os as _os
import posixpath
import stat as _stat

from .common import Unmodelled, is_sym
from .fs import ABSENT, FILE, DIR, DIR_SIZE, oserr

MUTATING = ('mkdir', 'makedirs', 'rename', 'replace', 'rmdir', 'remove', 'open-w', 'gzip-w', 'gzip-data', 'mkdtemp', 'rmtree')


class NS:
    """Attribute namespace; unknown names raise Unmodelled (never a verdict)."""

    def __init__(self, label, **kw):
        self.__dict__['_label'] = label
        self.__dict__.update(kw)

    def __getattr__(self, name):
        if name.startswith('__'):
            raise AttributeError(name)
        raise Unmodelled('%s.%s is not modelled' % (self._label, name))


class Content:
    """What reading a model file yields: a token carrying the content id."""

    def __init__(self, cid):
        self.cid = cid

    def __len__(self):
        return 1


class Chunk:
    """Chunked content model: bytes [off, off+ln) of content cid (off, ln concrete)."""

    def __init__(self, cid, off, ln):
        self.cid, self.off, self.ln = cid, off, ln

    def __len__(self):
        return self.ln


def chunk_size_of(env, cid, n):
    """Chunked model: the size of a content that is read in pieces of n bytes is one of a few classes around the
    multiples of n (a hole); returns the concrete size."""
    eng = env.fs.eng
    sz = eng.size_of(cid)
    if not is_sym(sz):
        return int(sz)
    from .engine import tid
    key = tid(cid.e)
    got = env.chunk_sizes.get(key)
    if got is not None:
        return got
    classes = [n + 1, n, n - 1, 2 * n, 2 * n + 1]
    v = classes[eng.choose('szclass', len(classes))]
    eng.constrain(sz == v)
    env.chunk_sizes[key] = v
    return v


class JsonDoc(str):
    """What json.dumps returns in the model: an opaque text that carries the document.  Two texts are equal iff the
    documents render to the same characters: same shapes, same leaf classes (1 and 1.0 differ, True and 1 differ), same
    key order unless both were produced with sort_keys."""
    payload = None
    sort_keys = False

    def __eq__(self, o):
        if not isinstance(o, JsonDoc):
            return False
        return _json_text_eq(self.payload, o.payload, self.sort_keys and o.sort_keys)

    def __ne__(self, o):
        r = self.__eq__(o)
        return (not r) if isinstance(r, bool) else r.neg()

    def __hash__(self):
        return 11


def _json_text_eq(a, b, sort_keys):
    from . import logic as L
    ta, tb = type(a), type(b)
    if ta in (list, tuple) or tb in (list, tuple):
        if ta not in (list, tuple) or tb not in (list, tuple) or len(a) != len(b):
            return False
        return L.and_(*[_json_text_eq(x, y, sort_keys) for x, y in zip(a, b)])
    if ta is dict or tb is dict:
        if ta is not dict or tb is not dict or len(a) != len(b):
            return False
        for k in list(a) + list(b):
            if k.__class__ is not str:
                raise Unmodelled('json.dumps of a document with non-string keys (model)')
        if not sort_keys:
            return L.and_(*[L.and_(L.eq(ka, kb), _json_text_eq(a[ka], b[kb], sort_keys)) for ka, kb in zip(a, b)])
        conds = []
        for ka in a:
            hit = None
            for kb in b:
                if bool(L.eq(ka, kb)):
                    hit = kb
                    break
            if hit is None:
                return False
            conds.append(_json_text_eq(a[ka], b[hit], sort_keys))
        return L.and_(*conds)
    if a is None or b is None:
        return a is b
    if a.__class__ is not b.__class__:
        return False
    if a.__class__ is float:
        # the characters json writes for a float are its repr (-0.0 and 0.0 differ)
        if ta is float and tb is float:
            return repr(a) == repr(b)
        from .proxies import sym_repr
        return L.eq(sym_repr(a) if is_sym(a) else sym_repr_concrete(a), sym_repr(b) if is_sym(b) else sym_repr_concrete(b))
    return L.eq(a, b, exact_types=True)


def sym_repr_concrete(x):
    from .proxies import lit
    return lit(repr(x))


def _jkey(k):
    """the string json.dumps writes for a dict key"""
    if k.__class__ is str:
        return k
    if is_sym(k):
        from .proxies import sym_repr, SymBool
        if type(k) is SymBool:
            return 'true' if bool(k) else 'false'
        return sym_repr(k)
    if k is None:
        return 'null'
    if k is True or k is False:
        return 'true' if k else 'false'
    if isinstance(k, (int, float, str)):
        import json as _j
        return list(_j.loads(_j.dumps({k: None})).keys())[0]
    raise TypeError('keys must be str, int, float, bool or None, not %s' % type(k).__name__)


def jcopy(v):
    """JSON round trip: tuples -> lists, keys stringified (later duplicates win), fresh containers,
    leaves (incl. proxies) kept."""
    t = type(v)
    if t is dict:
        out = {}
        for k, x in v.items():
            out[_jkey(k)] = jcopy(x)
        return out
    if t in (list, tuple):
        return [jcopy(x) for x in v]
    if isinstance(v, dict):
        return {_jkey(k): jcopy(x) for k, x in v.items()}
    if isinstance(v, (list, tuple)):
        return [jcopy(x) for x in v]
    if v is None or isinstance(v, (str, int, float)) or getattr(t, '_is_sym', False) or (t.__module__ or '').startswith(('symx', 'harness')) \
            and not getattr(t, '_not_json', False):
        return v
    # what json.dump does with anything else (a set, bytes, an arbitrary object)
    raise TypeError('Object of type %s is not JSON serializable' % t.__name__)


class _Stat:
    @property
    def st_mtime(self):
        from .common import Unsupported
        raise Unsupported('stat().st_mtime: floating-point timestamps are not modelled (only st_mtime_ns)')

    st_atime = st_ctime = st_mtime

    def __init__(self, n, eng):
        if n.kind == DIR:
            self.st_mode = _stat.S_IFDIR | 0o755
            self.st_size = DIR_SIZE
            self.st_mtime_ns = 0
        else:
            self.st_mode = _stat.S_IFREG | (0o644 if n.perm is None else n.perm)
            self.st_size = eng.size_of(n.cid)
            self.st_mtime_ns = n.mtime
        self.st_ino = n.ino


class ModelFile:
    def __init__(self, env, p, mode, gz=False):
        fs = env.fs
        self.env, self.p, self.mode = env, p, mode
        self.gz = gz
        self.closed = False
        if 'w' in mode or 'a' in mode or 'x' in mode:
            self.node = fs.open_write(p)
            self.node.payload = None
            self.reading = False
        else:
            self.node = fs.open_read(p)
            self.reading = True
            self.done = False
            self.off = 0

    def read(self, n=-1):
        if self.env.chunked and n is not None and n >= 0 and 'b' in self.mode and not self.gz:
            # chunked content model: a piece of at most n bytes
            size = chunk_size_of(self.env, self.node.cid, n)
            ln = min(n, size - self.off)
            if ln <= 0:
                return b''
            c = Chunk(self.node.cid, self.off, ln)
            self.off += ln
            return c
        if self.done:
            return b'' if 'b' in self.mode else ''
        self.done = True
        return Content(self.node.cid)

    def write(self, data):
        if self.gz:
            # the cache document is being written into the (already created) file
            self.env.call('gzip-data', (self.p,), True)
        self.node.payload = data
        return 1

    def __enter__(self):
        return self

    def __exit__(self, *a):
        self.closed = True
        return False

    def close(self):
        self.closed = True


class ModelSha:
    def __init__(self, env):
        self.env = env
        self.cid = None
        self.covered = None      # chunked model: number of leading bytes of cid digested so far

    def update(self, tok):
        if isinstance(tok, (bytes, bytearray)) and len(tok) == 0:
            return
        if isinstance(tok, Chunk):
            if self.cid is None and tok.off == 0:
                self.cid, self.covered = tok.cid, tok.ln
            elif self.covered is not None and tok.cid is self.cid and tok.off == self.covered:
                self.covered += tok.ln
            else:
                raise Unmodelled('sha256.update: pieces that are not a prefix of one file in order')
            return
        if not isinstance(tok, Content):
            raise Unmodelled('sha256.update of non-model content')
        self.cid = tok.cid

    def hexdigest(self):
        if self.covered is not None:
            eng = self.env.fs.eng
            if is_sym(self.cid):
                return eng.prefix_hash_of(self.cid, self.covered)
            return 'hp%d:%d' % (self.covered, self.cid if eng.pos_of(self.cid) < self.covered else 0)
        if self.cid is None:
            return 'h-empty'
        if is_sym(self.cid):
            return self.env.fs.eng.hash_of(self.cid)
        return 'h%d' % self.cid


_PERMS = {2: [(0, 1), (1, 0)], 3: [(0, 1, 2), (0, 2, 1), (1, 0, 2), (1, 2, 0), (2, 0, 1), (2, 1, 0)]}


def _removedirs(rmdir):
    """os.removedirs in terms of the environment's rmdir (CPython's algorithm): every rmdir is a logged call"""
    def removedirs(name):
        rmdir(name)
        head, tail = posixpath.split(name)
        if not tail:
            head, tail = posixpath.split(head)
        while head and tail:
            try:
                rmdir(head)
            except OSError:
                break
            head, tail = posixpath.split(head)
    return removedirs


class BaseEnv:
    perm_listdir = False     # os.listdir order is unspecified: return entries in a solver-chosen order
    chunked = False          # chunked content model (read(n) returns pieces; digests of prefixes)

    def permute(self, names):
        """One permutation hole per path (shared by every listdir call of the path)."""
        if not self.perm_listdir or len(names) not in (2, 3):
            return names
        if getattr(self, '_perm', None) is None:
            self._perm = self.fs.eng.choose('lsperm', 6)
        p = _PERMS[len(names)][self._perm % len(_PERMS[len(names)])]
        return [names[i] for i in p]

    def __init__(self):
        self.hooks = []
        self.calls = 0
        self.mut_calls = 0
        self.log = None          # list to record (op, args) of library calls, if set

    def call(self, op, args, mutating):
        self.calls += 1
        if mutating:
            self.mut_calls += 1
        if self.log is not None and mutating:
            self.log.append((op,) + tuple(args))
        for h in self.hooks:
            h(op, args, mutating)


class ModelEnv(BaseEnv):
    real = False

    def __init__(self, fs):
        super().__init__()
        self.fs = fs
        self.gzip_read_hook = None     # C15: outcome of reading the cache file
        self.chunk_sizes = {}
        self._build()

    def _build(self):
        fs, call = self.fs, self.call

        def isfile(p):
            call('isfile', (p,), False)
            return fs.is_kind(p, FILE)

        def isdir(p):
            call('isdir', (p,), False)
            return fs.is_kind(p, DIR)

        def exists(p):
            call('exists', (p,), False)
            return not fs.is_kind(p, ABSENT)

        def getsize(p):
            call('getsize', (p,), False)
            return _Stat(fs.lookup(p), fs.eng).st_size

        def getmtime(p):
            call('getmtime', (p,), False)
            return _Stat(fs.lookup(p), fs.eng).st_mtime_ns

        def abspath(p):
            return posixpath.normpath(posixpath.join(fs.cwd, p))

        path = NS('os.path', isfile=isfile, isdir=isdir, exists=exists, lexists=exists, getsize=getsize,
                  getmtime=getmtime, islink=lambda p: False, abspath=abspath,
                  dirname=posixpath.dirname, basename=posixpath.basename, join=posixpath.join,
                  split=posixpath.split, normcase=posixpath.normcase, normpath=posixpath.normpath,
                  isabs=posixpath.isabs, splitext=posixpath.splitext, relpath=posixpath.relpath,
                  commonpath=posixpath.commonpath, commonprefix=posixpath.commonprefix, sep='/')

        def stat(p):
            call('stat', (p,), False)
            return _Stat(fs.lookup(p), fs.eng)

        def listdir(p):
            call('listdir', (p,), False)
            return self.permute(fs.listdir(p))

        def mkdir(p, mode=0o777):
            call('mkdir', (p,), True)
            fs.mkdir(p)

        def makedirs(p, mode=0o777, exist_ok=False):
            call('makedirs', (p,), True)
            fs._makedirs(p, exist_ok)

        def rename(a, b):
            call('rename', (a, b), True)
            fs.rename(a, b)

        def replace(a, b):
            call('replace', (a, b), True)
            fs.rename(a, b)

        def rmdir(p):
            call('rmdir', (p,), True)
            fs.rmdir(p)

        def remove(p):
            call('remove', (p,), True)
            fs.remove(p)

        self.os = NS('os', path=path, name='posix', sep='/', stat=stat, lstat=stat, listdir=listdir, mkdir=mkdir,
                     makedirs=makedirs, rename=rename, replace=replace, rmdir=rmdir, remove=remove,
                     removedirs=_removedirs(rmdir),
                     unlink=remove, fsdecode=_os.fsdecode, fspath=_os.fspath, getcwd=lambda: fs.cwd,
                     PathLike=_os.PathLike, error=OSError)

        def fopen(p, mode='r', *a, **kw):
            p = _os.fspath(p)
            if 'w' in mode or 'a' in mode or 'x' in mode:
                call('open-w', (p,), True)
            else:
                call('open-r', (p,), False)
            return ModelFile(self, p, mode)

        self.open = fopen

        def gzopen(p, mode='rb', *a, **kw):
            p = _os.fspath(p)
            if 'w' in mode:
                call('gzip-w', (p,), True)
                return ModelFile(self, p, 'w', gz=True)
            call('gzip-r', (p,), False)
            f = ModelFile(self, p, 'r')
            if self.gzip_read_hook is not None:
                self.gzip_read_hook('open', f)
            return f

        self.gzip = NS('gzip', open=gzopen)

        def jdumps(obj, **kw):
            d = JsonDoc('<json>')
            d.payload = jcopy(obj)
            d.sort_keys = bool(kw.get('sort_keys'))
            return d

        def jload(f):
            if self.gzip_read_hook is not None:
                r = self.gzip_read_hook('load', f)
                if r is not None:
                    return r[0]
            doc = f.node.payload
            if not isinstance(doc, JsonDoc):
                raise ValueError('not a JSON document (model)')
            return jcopy(doc.payload)

        self.json = NS('json', dumps=jdumps, load=jload)
        self.hashlib = NS('hashlib', sha256=lambda: ModelSha(self))

        def mkdtemp(suffix=None, prefix=None, dir=None):
            call('mkdtemp', (prefix,), True)
            return fs.mkdtemp(prefix)

        self.tempfile = NS('tempfile', mkdtemp=mkdtemp)

        def rmtree(p, ignore_errors=False, onerror=None, **kw):
            call('rmtree', (p,), True)
            fs.rmtree(p)

        self.shutil = NS('shutil', rmtree=rmtree)

    def names(self):
        return {'os': self.os, 'open': self.open, 'gzip': self.gzip, 'json': self.json,
                'hashlib': self.hashlib, 'tempfile': self.tempfile, 'shutil': self.shutil}


# ---------------------------------------------------------------------- real
class RealFS:
    """The real file system under a sandbox directory, with the subset of the
    ModelFS interface the harnesses use.  Content ids are mapped to bytes."""
    real = True

    def __init__(self, eng, sandbox):
        self.eng = eng
        self.sandbox = sandbox
        self.root = posixpath.join(sandbox, 's')
        _os.makedirs(self.root)
        self.cwd = self.root
        self.cid_index = {}
        self.by_bytes = {}
        self.tmpdirs = []

    # content <-> bytes
    def bytes_for(self, cid):
        b = None
        idx = self.cid_index.get(cid)
        if idx is None:
            idx = self.cid_index[cid] = len(self.cid_index)
        size = self.eng.size_of(cid)
        b = (b'c%d;' % idx).ljust(size, b'.')
        if cid in getattr(self.eng, 'pos', {}):
            # chunked content model: one distinguishing byte at POS(cid), filler elsewhere
            pos = self.eng.pos[cid]
            if not (0 <= pos < size and idx < 100):
                from .common import HarnessError
                raise HarnessError('POS(%r)=%r outside content of size %r' % (cid, pos, size))
            b = b'.' * pos + bytes([0x80 + idx]) + b'.' * (size - pos - 1)
        if len(b) != size:
            from .common import HarnessError
            raise HarnessError('model size %d too small for a distinguishable content' % size)
        self.by_bytes[b] = cid
        return b

    def cid_of_bytes(self, b):
        c = self.by_bytes.get(b)
        if c is None:
            import hashlib
            return 'raw:' + hashlib.sha256(b).hexdigest()[:12]
        return c

    def kind(self, p):
        try:
            st = _os.lstat(p)
        except (OSError, ValueError):
            # ValueError: a path with an embedded NUL byte names nothing
            return ABSENT
        return DIR if _stat.S_ISDIR(st.st_mode) else FILE

    def is_kind(self, p, kind):
        return self.kind(p) == kind

    def children(self, d):
        return sorted(_os.listdir(d))

    def add_file(self, p, cid, mtime):
        with open(p, 'wb') as f:
            f.write(self.bytes_for(cid))
        _os.utime(p, ns=(mtime, mtime))

    def add_dir(self, p):
        _os.mkdir(p)

    def open_write(self, p, cid=None, mtime=None, payload=None, op='open-w'):
        if cid is None:
            cid = self.eng.fresh_int('wcid')
        if mtime is None:
            mtime = self.eng.fresh_int('wmt', 0, 2 ** 62)
        with open(p, 'wb') as f:
            f.write(self.bytes_for(cid))
        _os.utime(p, ns=(mtime, mtime))

    def utime(self, p, mtime):
        _os.utime(p, ns=(mtime, mtime))

    def chmod(self, p, perm):
        _os.chmod(p, perm)

    def mkdir(self, p):
        _os.mkdir(p)

    def rmdir(self, p):
        _os.rmdir(p)

    def remove(self, p):
        _os.remove(p)

    def rename(self, a, b):
        _os.rename(a, b)

    def rmtree(self, p):
        import shutil
        shutil.rmtree(p)

    def read_cid(self, p):
        with open(p, 'rb') as f:
            return self.cid_of_bytes(f.read())

    def snapshot(self, under=None, exclude=()):
        under = under or self.root
        out = {}
        for d, subdirs, files in _os.walk(under):
            for n in subdirs:
                p = posixpath.join(d, n)
                if p not in exclude:
                    out[p] = ('D', _os.lstat(p).st_ino)
            for n in files:
                p = posixpath.join(d, n)
                if p in exclude:
                    continue
                st = _os.lstat(p)
                out[p] = ('F', st.st_ino, self.read_cid(p), st.st_mtime_ns)
        return out


class _HookedWriter:
    """A real file object whose write() is a hook point (fault injection into the cache write)."""

    def __init__(self, f, hook):
        self._f, self._hook = f, hook

    def write(self, data):
        self._hook()
        return self._f.write(data)

    def __enter__(self):
        self._f.__enter__()
        return self

    def __exit__(self, *a):
        return self._f.__exit__(*a)

    def __getattr__(self, name):
        return getattr(self._f, name)


class RealEnv(BaseEnv):
    real = True

    def __init__(self, fs):
        super().__init__()
        self.fs = fs
        self._build()

    def _build(self):
        import gzip as _gzip
        import json as _json
        import hashlib as _hashlib
        import tempfile as _tempfile
        import shutil as _shutil
        import builtins
        call = self.call

        def w(op, fn, mutating, nargs=1):
            def f(*a, **kw):
                call(op, tuple(a[:nargs]), mutating)
                return fn(*a, **kw)
            return f

        rp = _os.path
        path = NS('os.path', isfile=w('isfile', rp.isfile, False), isdir=w('isdir', rp.isdir, False),
                  exists=w('exists', rp.exists, False), lexists=w('exists', rp.lexists, False),
                  getsize=w('getsize', rp.getsize, False), getmtime=w('getmtime', rp.getmtime, False),
                  islink=lambda p: False,
                  abspath=lambda p: posixpath.normpath(posixpath.join(self.fs.cwd, _os.fsdecode(p))),
                  dirname=rp.dirname, basename=rp.basename, join=rp.join, split=rp.split, normcase=rp.normcase,
                  normpath=rp.normpath, isabs=rp.isabs, splitext=rp.splitext, relpath=rp.relpath,
                  commonpath=rp.commonpath, commonprefix=rp.commonprefix, sep='/')
        self.os = NS('os', path=path, name='posix', sep='/', stat=w('stat', _os.stat, False),
                     lstat=w('stat', _os.lstat, False),
                     listdir=w('listdir', lambda p: self.permute(sorted(_os.listdir(p))), False),
                     mkdir=w('mkdir', _os.mkdir, True), makedirs=w('makedirs', _os.makedirs, True),
                     rename=w('rename', _os.rename, True, 2), replace=w('replace', _os.replace, True, 2),
                     rmdir=w('rmdir', _os.rmdir, True), remove=w('remove', _os.remove, True),
                     removedirs=_removedirs(w('rmdir', _os.rmdir, True)),
                     unlink=w('remove', _os.remove, True), fsdecode=_os.fsdecode, fspath=_os.fspath,
                     getcwd=lambda: self.fs.cwd, PathLike=_os.PathLike, error=OSError)

        def fopen(p, mode='r', *a, **kw):
            if 'w' in mode or 'a' in mode or 'x' in mode:
                call('open-w', (_os.fspath(p),), True)
            else:
                call('open-r', (_os.fspath(p),), False)
            return builtins.open(p, mode, *a, **kw)

        self.open = fopen

        def gzopen(p, mode='rb', *a, **kw):
            if 'w' in mode:
                call('gzip-w', (_os.fspath(p),), True)
                return _HookedWriter(_gzip.open(p, mode, *a, **kw), lambda: call('gzip-data', (_os.fspath(p),), True))
            call('gzip-r', (_os.fspath(p),), False)
            return _gzip.open(p, mode, *a, **kw)

        self.gzip = NS('gzip', open=gzopen)
        self.json = _json
        self.hashlib = _hashlib

        def mkdtemp(suffix=None, prefix=None, dir=None):
            call('mkdtemp', (prefix,), True)
            d = _tempfile.mkdtemp(suffix, prefix, self.fs.sandbox + '/tmp')
            self.fs.tmpdirs.append(d)
            return d

        _os.makedirs(self.fs.sandbox + '/tmp', exist_ok=True)
        self.tempfile = NS('tempfile', mkdtemp=mkdtemp)

        def rmtree(p, *a, **kw):
            call('rmtree', (p,), True)
            return _shutil.rmtree(p, *a, **kw)

        self.shutil = NS('shutil', rmtree=rmtree)

    def names(self):
        return {'os': self.os, 'open': self.open, 'gzip': self.gzip, 'json': self.json,
                'hashlib': self.hashlib, 'tempfile': self.tempfile, 'shutil': self.shutil}

"""ConcreteEngine: same interface as Engine, plain Python values taken from a
model dict (a solver counterexample).  No z3: runs under /venv/bin/python for
real-OS replays and under python3-vt for in-memory cross-checks."""
from .common import PathAbort, PathEnd, HarnessError, Stats


class ConcreteEngine:
    symbolic = False

    def __init__(self, model):
        self.model = model
        self.occ = {}
        self.failures = []
        self.witnesses = {}
        self.samples = []
        self.notes = {}
        self.assumes = {}
        self.path_info = {}
        self.stats = Stats()
        self.sz = {a: r for a, r in model.get('fn:SZ', [])}
        self.pos = {a: r for a, r in model.get('fn:POS', [])}
        self.s_of = {a: r for a, r in model.get('fn:S', [])}
        self.sf_of = {a: r for a, r in model.get('fn:SF', [])}
        self.max_samples = 4

    def _name(self, name):
        c = self.occ.get(name, 0)
        self.occ[name] = c + 1
        return '%s#%d' % (name, c) if c else name

    def fresh_int(self, name, lo=None, hi=None):
        n = self._name(name)
        v = self.model.get(n)
        if v is None:
            v = lo if lo is not None else 0
        return v

    def fresh_bool(self, name):
        return bool(self.model.get(self._name(name), False))

    # strings: atoms of the model are turned back into real strings
    def register_literals(self, lits):
        pass

    def fresh_str(self, name):
        a = self.model.get(self._name(name), 0)
        for arg, res in self.model.get('fn:S', []):
            if res == a:
                return repr(arg)
        for arg, res in self.model.get('fn:SF', []):
            if res == a:
                return repr(float(arg))
        return 's%d' % a

    def fresh_float(self, name):
        return float(self.model.get(self._name(name), 0))

    def lit(self, s):
        return s

    def repr_int(self, x):
        return repr(int(x))

    def repr_float(self, x):
        return repr(x)

    def special_float(self, f):
        return f

    def repr_fn(self):
        return repr

    def choose(self, name, n, lo=0):
        if n <= 1:
            return lo
        return self.fresh_int(name, lo, lo + n - 1)

    def concretize(self, v, lo, hi):
        return v

    def constrain(self, cond):
        if not cond:
            raise PathAbort()

    def assume(self, cond, why):
        if not cond:
            raise PathAbort()

    def size_of(self, cid):
        return self.sz.get(cid, 16)

    def hash_of(self, cid):
        return 'h%d' % cid

    def pos_of(self, cid):
        return self.pos.get(cid, 0)

    def check(self, name, cond, sig=None, info=None, fatal=True):
        self.stats.obligations += 1
        import os
        if os.environ.get('VERIF_TWIN') == name:
            cond = False
        if cond:
            return True
        self.failures.append({'check': name, 'sig': [name] + list(sig or ()), 'info': info})
        if fatal:
            raise PathEnd()
        return False

    def holds(self, cond):
        return bool(cond)

    def witness(self, name):
        self.witnesses[name] = self.witnesses.get(name, 0) + 1

    def sample(self, obj):
        if len(self.samples) < self.max_samples:
            self.samples.append(obj)

    def note(self, key, n=1):
        self.notes[key] = self.notes.get(key, 0) + n

    def run(self, harness):
        try:
            harness(self)
            return 'completed'
        except PathAbort:
            return 'aborted'
        except PathEnd:
            return 'ended'

"""ModelFS: one in-memory file-system model following the Linux contract the
library depends on.  Node kinds are Python ints or SymInt proxies (decisions go
through the engine); contents are content ids, sizes SZ(cid), mtimes integers.
z3-free: works with the symbolic Engine and with the ConcreteEngine.
"""
import errno
import posixpath

from .common import is_sym, HarnessError

ABSENT, FILE, DIR = 0, 1, 2
DIR_SIZE = 4096


class Node:
    __slots__ = ('kind', 'cid', 'mtime', 'ino', 'payload', 'perm')

    def __init__(self, kind, cid=None, mtime=None, ino=None, payload=None, perm=None):
        self.perm = perm            # permission bits of a regular file (None: the default 0o644)
        self.kind = kind
        self.cid = cid
        self.mtime = mtime
        self.ino = ino
        self.payload = payload


def oserr(code, path):
    cls = {errno.ENOENT: FileNotFoundError, errno.ENOTDIR: NotADirectoryError,
           errno.EISDIR: IsADirectoryError, errno.EEXIST: FileExistsError}.get(code, OSError)
    return cls(code, 'modelfs', path)


NAME_MAX = 255


def too_long(name):
    return len(name.encode('utf-8', 'surrogateescape')) > NAME_MAX


class ModelFS:
    def __init__(self, eng, root='/s'):
        self.eng = eng
        self.root = root
        self.nodes = {}
        self.next_ino = 1000
        self.hooks = []          # callables (op, args, mutating)
        self.actor = 'lib'       # who is calling: lib | user | ext
        self.tmpcount = 0
        self.tmpdirs = []
        self.cwd = root
        p = root
        while True:
            self.nodes[p] = Node(DIR, ino=self._ino())
            if p == '/':
                break
            p = posixpath.dirname(p)
        self.nodes['/tmp'] = Node(DIR, ino=self._ino())

    # ------------------------------------------------------------ construction
    def _ino(self):
        self.next_ino += 1
        return self.next_ino

    def add_symbolic(self, path, tag=None):
        """A universe path whose initial kind/content/mtime are symbolic."""
        eng = self.eng
        tag = tag or path[len(self.root) + 1:]
        k = eng.fresh_int('k:' + tag, 0, 2)
        par = self.nodes.get(posixpath.dirname(path))
        if par is None:
            raise HarnessError('universe must be added parent-first: ' + path)
        pk = par.kind
        if is_sym(pk):
            eng.constrain(implies_present_dir(k, pk))
        elif pk != DIR:
            eng.constrain(k == 0)
        n = Node(k, eng.fresh_int('cid:' + tag), eng.fresh_int('mt:' + tag, 0, 2 ** 62), self._ino())
        self.nodes[path] = n
        return n

    def add_file(self, path, cid, mtime):
        self.nodes[path] = Node(FILE, cid, mtime, self._ino())

    def add_dir(self, path):
        self.nodes[path] = Node(DIR, ino=self._ino())

    def clone(self):
        c = ModelFS.__new__(ModelFS)
        c.eng = self.eng
        c.root = self.root
        c.nodes = {}
        for p, n in self.nodes.items():
            c.nodes[p] = Node(n.kind, n.cid, n.mtime, n.ino, n.payload, n.perm)
        c.next_ino = self.next_ino
        c.hooks = []
        c.actor = 'lib'
        c.tmpcount = self.tmpcount
        c.tmpdirs = list(self.tmpdirs)
        c.cwd = self.cwd
        return c

    # ------------------------------------------------------------ lookup
    def is_kind(self, p, kind):
        n = self.nodes.get(p)
        if n is None:
            return kind == ABSENT
        k = n.kind
        if is_sym(k):
            r = bool(k == kind)
            if r:
                n.kind = kind
            return r
        return k == kind

    def kind(self, p):
        n = self.nodes.get(p)
        if n is None:
            return ABSENT
        k = n.kind
        if is_sym(k):
            if bool(k == ABSENT):
                k = ABSENT
            elif bool(k == FILE):
                k = FILE
            else:
                k = DIR
            n.kind = k
        return k

    def lookup(self, p):
        """Return the node of an existing path or raise like the kernel."""
        k = self.kind(p)
        if k != ABSENT:
            return self.nodes[p]
        q, par = p, posixpath.dirname(p)
        while par != q:
            pk = self.kind(par)
            if pk == FILE:
                raise oserr(errno.ENOTDIR, p)
            if pk == DIR:
                # the walk got as far as par; the next component is the one that fails
                if too_long(posixpath.basename(q)):
                    raise oserr(errno.ENAMETOOLONG, p)
                raise oserr(errno.ENOENT, p)
            q, par = par, posixpath.dirname(par)
        raise oserr(errno.ENOENT, p)

    def parent_dir(self, p, check_name=True):
        par = self.lookup(posixpath.dirname(p))
        if par.kind != DIR:
            raise oserr(errno.ENOTDIR, p)
        if check_name and too_long(posixpath.basename(p)):
            # creating (or looking up) an entry whose name exceeds NAME_MAX in an existing directory
            raise oserr(errno.ENAMETOOLONG, p)
        return par

    def children(self, d):
        out = []
        pre = d if d.endswith('/') else d + '/'
        for p in list(self.nodes):
            if p.startswith(pre) and '/' not in p[len(pre):] and p != d:
                if self.kind(p) != ABSENT:
                    out.append(p[len(pre):])
        return sorted(out)

    def subtree(self, d):
        pre = d + '/'
        return [p for p in list(self.nodes) if p == d or p.startswith(pre)]

    # ------------------------------------------------------------ hooks
    def _call(self, op, args, mutating):
        for h in self.hooks:
            h(op, args, mutating)
        for a in args:
            if isinstance(a, str) and '\0' in a:
                # CPython refuses such a path before it reaches the kernel (os.path.isfile & co. answer False instead)
                raise ValueError('embedded null byte')

    # ------------------------------------------------------------ kernel ops
    def stat(self, p):
        self._call('stat', (p,), False)
        return self.lookup(p)

    def listdir(self, p):
        self._call('listdir', (p,), False)
        n = self.lookup(p)
        if n.kind != DIR:
            raise oserr(errno.ENOTDIR, p)
        return self.children(p)

    def mkdir(self, p):
        self._call('mkdir', (p,), True)
        if self.kind(p) != ABSENT:
            raise oserr(errno.EEXIST, p)
        self.parent_dir(p)
        self.nodes[p] = Node(DIR, ino=self._ino())

    def makedirs(self, p, exist_ok=False):
        self._call('makedirs', (p,), True)
        self._makedirs(p, exist_ok)

    def _makedirs(self, p, exist_ok):
        head = posixpath.dirname(p)
        if head != p and self.kind(head) == ABSENT:
            try:
                self._makedirs(head, exist_ok)
            except FileExistsError:
                pass
        k = self.kind(p)
        if k != ABSENT:
            if not exist_ok or k != DIR:
                raise oserr(errno.EEXIST, p)
            return
        self.parent_dir(p)
        self.nodes[p] = Node(DIR, ino=self._ino())

    def rmdir(self, p):
        self._call('rmdir', (p,), True)
        n = self.lookup(p)
        if n.kind != DIR:
            raise oserr(errno.ENOTDIR, p)
        if self.children(p):
            raise oserr(errno.ENOTEMPTY, p)
        self.nodes[p] = Node(ABSENT)

    def remove(self, p):
        self._call('remove', (p,), True)
        n = self.lookup(p)
        if n.kind == DIR:
            raise oserr(errno.EISDIR, p)
        self.nodes[p] = Node(ABSENT)

    def rename(self, a, b, op='rename'):
        self._call(op, (a, b), True)
        # the kernel resolves both parent directories first, then looks at the source
        self.parent_dir(a, check_name=False)
        self.parent_dir(b, check_name=False)
        n = self.lookup(a)
        if too_long(posixpath.basename(b)):
            raise oserr(errno.ENAMETOOLONG, b)
        if a == b:
            return
        if a.startswith(b + '/'):
            # the destination is an ancestor of the source
            raise oserr(errno.ENOTEMPTY, b)
        kb = self.kind(b)
        if n.kind == DIR:
            if b.startswith(a + '/'):
                raise OSError(errno.EINVAL, 'modelfs', a)
            if kb == FILE:
                raise oserr(errno.ENOTDIR, b)
            if kb == DIR and self.children(b):
                raise oserr(errno.ENOTEMPTY, b)
            for q in self.subtree(a):
                if self.kind(q) != ABSENT:
                    self.nodes[b + q[len(a):]] = self.nodes[q]
                self.nodes[q] = Node(ABSENT)
            return
        if kb == DIR:
            raise oserr(errno.EISDIR, b)
        self.nodes[b] = n
        self.nodes[a] = Node(ABSENT)

    def open_read(self, p):
        self._call('open-r', (p,), False)
        n = self.lookup(p)
        if n.kind == DIR:
            raise oserr(errno.EISDIR, p)
        return n

    def open_write(self, p, cid=None, mtime=None, payload=None, op='open-w'):
        """create / truncate + write: a new content id and mtime; keeps the inode
        of an existing regular file."""
        self._call(op, (p,), True)
        self.parent_dir(p)
        k = self.kind(p)
        if k == DIR:
            raise oserr(errno.EISDIR, p)
        ino = self.nodes[p].ino if k == FILE else self._ino()
        if cid is None:
            cid = self.eng.fresh_int('wcid')
        if mtime is None:
            mtime = self.eng.fresh_int('wmt', 0, 2 ** 62)
        n = Node(FILE, cid, mtime, ino, payload, self.nodes[p].perm if k == FILE else None)     # truncating keeps the mode
        self.nodes[p] = n
        return n

    def chmod(self, p, perm):
        self._call('chmod', (p,), True)
        self.lookup(p).perm = perm

    def utime(self, p, mtime):
        self._call('utime', (p,), True)
        self.lookup(p).mtime = mtime

    def rmtree(self, p):
        self._call('rmtree', (p,), True)
        for q in self.subtree(p):
            self.nodes[q] = Node(ABSENT)

    def mkdtemp(self, prefix):
        self._call('mkdtemp', (prefix,), True)
        self.tmpcount += 1
        p = '/tmp/%s%d' % (prefix or 'tmp', self.tmpcount)
        self.nodes[p] = Node(DIR, ino=self._ino())
        self.tmpdirs.append(p)
        return p

    # ------------------------------------------------------------ observation
    def snapshot(self, under=None, exclude=()):
        """{path: ('F', ino, cid, mtime) | ('D', ino)} of every existing path
        under `under` (forces all kinds there)."""
        under = under or self.root
        out = {}
        for p in sorted(self.subtree(under)):
            if p == under or p in exclude:
                continue
            k = self.kind(p)
            if k == ABSENT:
                continue
            # a present node below an absent/replaced parent cannot happen
            n = self.nodes[p]
            out[p] = ('F', n.ino, n.cid, n.mtime) if k == FILE else ('D', n.ino)
        return out


def implies_present_dir(k, pk):
    from .logic import or_
    return or_(k == 0, pk == DIR)

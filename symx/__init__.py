"""symx: a small concolic / symbolic-execution engine on z3 that runs the real,
unmodified file_builder modules over a symbolic environment model.

engine.py    Engine (z3), exploration by re-execution over decision prefixes
concrete.py  ConcreteEngine (no z3; used for replays under /venv/bin/python)
proxies.py   SymInt SymBool SymStr SymFloat (z3-backed value proxies)
fs.py        ModelFS: one file-system model, kinds symbolic or concrete
env.py       ModelEnv / RealEnv: the os/open/gzip/json/... namespaces bound into the repo
bind.py      rebinding of environment names in the file_builder modules (by identity)
sched.py     baton scheduler for thread harnesses
"""

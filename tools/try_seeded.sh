#!/bin/bash
# usage: try_seeded.sh <name> <prop> [<prop> ...]  -- apply a seeded patch to /repo, run quick checks, undo
NAME=$1; shift
cd /verif
git -C /repo apply /verif/seeded/$NAME/patch.diff || { echo "patch does not apply"; exit 2; }
for P in "$@"; do
  python3-vt check.py $P --tier ${TIER:-quick} > /tmp/try_${NAME}_$P.log 2>&1
  echo "$NAME $P exit=$? :: $(grep -c '^VIOLATION' /tmp/try_${NAME}_$P.log) violation lines; $(tail -1 /tmp/try_${NAME}_$P.log | cut -c1-200)"
  grep -A1 '^VIOLATION' /tmp/try_${NAME}_$P.log | head -4 | cut -c1-300
done
git -C /repo checkout -- .
git -C /repo status --short | head -3

#!/bin/bash
# usage: try_seeded.sh <name> <prop> [<prop> ...]
# Runs the quick checks against a seeded change.  Default: the change is applied in a scratch worktree of /repo HEAD
# (VERIF_REPO points the checks at it), so other checks can keep running on /repo.  With INPLACE=1 the patch is applied
# to /repo itself (git -C /repo apply), the checks run, and it is undone straight afterwards.
NAME=$1; shift
cd /verif
if [ -n "$INPLACE" ]; then
  git -C /repo apply /verif/seeded/$NAME/patch.diff || { echo "patch does not apply"; exit 2; }
  R=/repo
else
  R=/tmp/seedwt_$NAME
  git -C /repo worktree remove --force $R 2>/dev/null
  git -C /repo worktree add -q --detach $R HEAD || exit 2
  git -C $R apply /verif/seeded/$NAME/patch.diff || { echo "patch does not apply"; git -C /repo worktree remove --force $R; exit 2; }
fi
for P in "$@"; do
  VERIF_REPO=$R VERIF_EVIDENCE_DIR=/verif/.scratch/ev_seeded python3-vt check.py $P --tier ${TIER:-quick} > /tmp/try_${NAME}_$P.log 2>&1
  echo "$NAME $P exit=$? :: $(grep -c '^VIOLATION' /tmp/try_${NAME}_$P.log) violation lines; $(tail -1 /tmp/try_${NAME}_$P.log | cut -c1-200)"
  grep -A1 '^VIOLATION' /tmp/try_${NAME}_$P.log | head -4 | cut -c1-300
done
if [ -n "$INPLACE" ]; then git -C /repo checkout -- .; git -C /repo status --short | head -3; else git -C /repo worktree remove --force $R; fi

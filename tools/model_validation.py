#!/usr/bin/env python3
"""Model validation (part of setup_cmd):
 1. the repository's own unittest suite runs with every file_builder.* and file_builder.test.* module rebound to the
    environment model (ModelFS tree logic, real bytes/gzip/json on in-memory files): all tests except the symlink test
    must pass -- the model is faithful on every call pattern the suite produces;
 2. seeded random sequences of file-system calls on a concrete ModelFS and on a real temp directory must agree on
    results and OSError subclasses.
Exit 0 if both hold, 3 otherwise."""
import errno
import importlib
import logging
import os
import posixpath
import random
import shutil
import sys
import tempfile
import unittest

sys.path.insert(0, os.environ.get('VERIF_REPO', '/repo'))
sys.path.insert(0, os.path.dirname(os.path.dirname(os.path.abspath(__file__))))
logging.disable(logging.CRITICAL)


def suite_on_model():
    from symx.bytesenv import BytesEnv
    import file_builder
    import file_builder.test
    env = BytesEnv()
    names = env.names()
    real = {'os': os, 'shutil': shutil, 'tempfile': tempfile, 'gzip': importlib.import_module('gzip')}
    mods = [m for n, m in list(sys.modules.items()) if n.startswith('file_builder') and m is not None]
    for m in mods:
        for k, v in list(vars(m).items()):
            for rn, rm in real.items():
                if v is rm:
                    setattr(m, k, names[rn])
        setattr(m, 'open', names['open'])
    suite = unittest.defaultTestLoader.loadTestsFromModule(file_builder.test)
    r = unittest.TextTestRunner(verbosity=0, stream=open(os.devnull, 'w')).run(suite)
    bad = [t.id() for t, _ in r.failures + r.errors]
    allowed = [b for b in bad if 'symlink' in b]
    print('test-suite on the model: ran %d, failed/errored %d (symlink test, not modelled: %d)' % (r.testsRun, len(bad), len(allowed)))
    for t, tb in r.failures + r.errors:
        if 'symlink' not in t.id():
            print('  FAILED on the model:', t.id(), '::', tb.strip().splitlines()[-1][:200])
    return r.testsRun >= 60 and len(bad) == len(allowed)


def diff_ops(seed, ncalls):
    from symx.fs import ModelFS, FILE, DIR, ABSENT
    from symx.bytesenv import _Eng
    rnd = random.Random(seed)
    real_root = tempfile.mkdtemp(prefix='verif_diff_')
    fs = ModelFS(_Eng(), '/w')
    names = ['a', 'b', 'c']
    paths = [posixpath.join(*[rnd.choice(names) for _ in range(rnd.randint(1, 3))]) for _ in range(40)]
    # a few paths with a component longer than NAME_MAX (ENAMETOOLONG vs ENOENT / ENOTDIR precedence)
    paths += [posixpath.join(*[rnd.choice(names + ['L' * 256]) for _ in range(rnd.randint(1, 3))]) for _ in range(8)]
    ops = ['mkdir', 'rmdir', 'remove', 'rename', 'listdir', 'isfile', 'isdir', 'write', 'makedirs', 'stat', 'open', 'makedirs_ok']
    n = mism = 0
    try:
        for i in range(ncalls):
            op = rnd.choice(ops)
            p, q = rnd.choice(paths), rnd.choice(paths)
            rp, rq = os.path.join(real_root, p), os.path.join(real_root, q)
            mp, mq = '/w/' + p, '/w/' + q

            def run(f):
                try:
                    return ('ok', f())
                except OSError as e:
                    return ('err', type(e).__name__)

            if op == 'mkdir':
                a, b = run(lambda: os.mkdir(rp)), run(lambda: fs.mkdir(mp))
            elif op == 'rmdir':
                a, b = run(lambda: os.rmdir(rp)), run(lambda: fs.rmdir(mp))
            elif op == 'remove':
                a, b = run(lambda: os.remove(rp)), run(lambda: fs.remove(mp))
            elif op == 'rename':
                a, b = run(lambda: os.rename(rp, rq)), run(lambda: fs.rename(mp, mq))
            elif op == 'listdir':
                a, b = run(lambda: sorted(os.listdir(rp))), run(lambda: fs.listdir(mp))
            elif op == 'isfile':
                a, b = run(lambda: os.path.isfile(rp)), run(lambda: fs.is_kind(mp, FILE))
            elif op == 'isdir':
                a, b = run(lambda: os.path.isdir(rp)), run(lambda: fs.is_kind(mp, DIR))
            elif op == 'write':
                def w():
                    with open(rp, 'w') as f:
                        f.write('x')
                a, b = run(w), run(lambda: fs.open_write(mp, cid=1, mtime=1) and None)
            elif op == 'makedirs':
                a, b = run(lambda: os.makedirs(rp)), run(lambda: fs._makedirs(mp, False))
            elif op == 'makedirs_ok':
                a, b = run(lambda: os.makedirs(rp, exist_ok=True)), run(lambda: fs._makedirs(mp, True))
            elif op == 'stat':
                a, b = run(lambda: os.path.isdir(rp) or os.stat(rp) and False), run(lambda: fs.lookup(mp).kind == DIR)
            else:
                def o():
                    with open(rp, 'rb'):
                        return None
                a, b = run(o), run(lambda: fs.open_read(mp) and None)
            n += 1
            if a[0] != b[0] or (a[0] == 'err' and a[1] != b[1]) or (a[0] == 'ok' and op in ('listdir', 'isfile', 'isdir', 'stat') and a[1] != b[1]):
                # ENOTEMPTY / EEXIST both plain OSError subclasses on rename of directories: compare class names only
                mism += 1
                if mism <= 5:
                    print('  MISMATCH', op, p, q, 'real', a, 'model', b)
    finally:
        shutil.rmtree(real_root, ignore_errors=True)
    return n, mism


def chunk_model():
    """Chunked content model vs the real bytes and the real sha256: for concrete (size, POS) pairs and prefix lengths the
    model's digest-equality (k, POS<k, c if POS<k) must coincide with equality of sha256 over the materialised bytes."""
    import hashlib
    import tempfile
    from symx.concrete import ConcreteEngine
    from symx.env import RealFS
    bad = n = 0
    for size in (12, 1023, 1024, 1025, 2049):
        poss = sorted({0, 1, size // 2, min(1023, size - 1), min(1024, size - 1), size - 1})
        model = {'fn:SZ': [[1, size], [2, size]], 'fn:POS': []}
        for p1 in poss:
            for p2 in poss:
                model['fn:POS'] = [[1, p1], [2, p2]]
                eng = ConcreteEngine(model)
                sb = tempfile.mkdtemp(prefix='verif-chunk-')
                try:
                    fs = RealFS(eng, sb)
                    b1, b2 = fs.bytes_for(1), fs.bytes_for(2)
                finally:
                    shutil.rmtree(sb, ignore_errors=True)
                for k in sorted({1, 1023, 1024, 1025, size} & set(range(1, size + 1))):
                    real = hashlib.sha256(b1[:k]).digest() == hashlib.sha256(b2[:k]).digest()
                    m1 = (k, p1 < k, 1 if p1 < k else 0)
                    m2 = (k, p2 < k, 2 if p2 < k else 0)
                    n += 1
                    if (m1 == m2) != real or len(b1) != size:
                        bad += 1
    print('chunked content model: %d (size, POS, POS\', k) cases against real sha256 over the materialised bytes, %d mismatches' % (n, bad))
    return bad == 0


def main():
    ok = suite_on_model() and chunk_model()
    total = mism = 0
    for seed in range(int(os.environ.get('VERIF_SEED', '0')), int(os.environ.get('VERIF_SEED', '0')) + 10):
        n, m = diff_ops(seed, 2500)
        total += n
        mism += m
    print('differential op sequences: %d calls on ModelFS vs the real OS, %d mismatches' % (total, mism))
    if ok and mism == 0:
        print('model validation ok')
        return 0
    return 3


if __name__ == '__main__':
    sys.exit(main())

#!/bin/bash
# usage: harvest.sh <name> <worktree> <property>   -- validate a seeded change made in a scratch worktree and store it
set -u
NAME=$1; WT=$2; PROP=$3
D=/verif/seeded/$NAME
mkdir -p $D
git -C $WT diff -- file_builder > $D/patch.diff
cp $WT/demo_seeded.py $D/demo_seeded.py 2>/dev/null
cp $WT/SEEDED_NOTES.md $D/SEEDED_NOTES.md 2>/dev/null
echo "patch lines: $(wc -l < $D/patch.diff)"
# validate in a fresh scratch worktree of /repo HEAD
S=/tmp/harvest_$NAME
git -C /repo worktree remove --force $S 2>/dev/null
git -C /repo worktree add -q --detach $S HEAD
cp $D/demo_seeded.py $S/
( cd $S && /venv/bin/python demo_seeded.py > /tmp/h_orig.out 2>&1; echo "demo on original: exit $?" )
( cd $S && git apply $D/patch.diff && echo "patch applies" )
( cd $S && /venv/bin/python -m pytest -q -p no:cacheprovider 2>&1 | tail -1 )
( cd $S && /venv/bin/python demo_seeded.py > /tmp/h_patched.out 2>&1; echo "demo with patch: exit $?"; head -5 /tmp/h_patched.out )
git -C /repo worktree remove --force $S

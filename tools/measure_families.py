import sys, time, logging, os
sys.path.insert(0, os.environ.get('VERIF_REPO', '/repo')); sys.path.insert(0, '/verif')
logging.disable(logging.CRITICAL)
from symx.runner import explore_family
import importlib
"""usage: PYTHONHASHSEED=0 python3-vt tools/measure_families.py harness.cNN quick|thorough <cap seconds> [family,family]"""
modname = sys.argv[1]; tier = sys.argv[2]; cap = float(sys.argv[3])
m = importlib.import_module(modname)
only = sys.argv[4].split(',') if len(sys.argv) > 4 else None
for F in m.families(tier):
    if only and F['name'] not in only: continue
    t=time.time()
    acc, done = explore_family(modname, F['name'], F.get('params', {}), 0, cap, 16)
    s = acc.stats
    print(F['name'], F.get('params', {}).get('hist'), 'paths', s.paths, 'aborted', s.paths_aborted, 'done', done, round(time.time()-t,1), 'wit', acc.witnesses, flush=True)
    for k,v in acc.violations.items(): print('   V', v['count'], k, v['info'], v['path_info'], flush=True)

import json,sys
for p in sys.argv[1:]:
    e=json.load(open('/verif/evidence/%s.json'%p))
    c=e['coverage']
    print(p, 'wall', e['wall_s'], 'exh', c['exhaustive'], 'paths', c['states'], 'xchk', c.get('concolic_cross_checks_in_model'), 'real', c.get('paths_revalidated_on_real_os'))
    for f in c['families']:
        print('   %-14s %-6s paths=%-7d done=%-5s %5.1fs %s' % (f['family'], f['params'].get('hist',''), f['paths'], f['completed'], f['wall_s'], {k:v for k,v in f['params'].items() if k in ('depth','width','P','who','target','builds')}))

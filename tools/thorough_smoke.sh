#!/bin/bash
# every thorough command once, with a reduced budget: does each still run end to end and exit 0?
cd /verif
for p in C01 C02 C03 C04 C05 C06 C07 C08 C09 C10 C11 C12 C13 C14 C15 C16 C17 C18; do
  VERIF_BUDGET_S=${B:-200} VERIF_EVIDENCE_DIR=/verif/.scratch/ev_thorough /usr/bin/time -f "%e s" python3-vt check.py $p --tier thorough > .scratch/logs/thorough_$p.log 2>&1
  echo "$p exit=$? $(grep -v KNOWN-FINDING .scratch/logs/thorough_$p.log | tail -2 | tr '\n' ' ' | cut -c1-200)"
done

#!/usr/bin/env python3
"""Diff z3's verdicts with cvc5 on a sample of the validity queries the checks discharge.
usage: python3-vt tools/diff_solvers.py <dir with q*.smt2 written under VERIF_DUMP_SMT>   (exit 0: all verdicts agree)"""
import os
import re
import sys
import time
import cvc5


def run(path):
    txt = open(path).read()
    s = cvc5.Solver()
    s.setOption('produce-models', 'false')
    s.setOption('tlimit-per', '20000')
    p = cvc5.InputParser(s)
    p.setStringInput(cvc5.InputLanguage.SMT_LIB_2_6, txt, path)
    sm = p.getSymbolManager()
    res = None
    while True:
        c = p.nextCommand()
        if c.isNull():
            break
        out = c.invoke(s, sm)
        if 'sat' in str(out):
            res = str(out).strip()
    return res


def main():
    d = sys.argv[1]
    files = sorted(f for f in os.listdir(d) if f.endswith('.smt2'))
    agree = disagree = unknown = 0
    t = time.time()
    for f in files:
        z = f.rsplit('_', 1)[1][:-5]
        try:
            c = run(os.path.join(d, f))
        except Exception as e:
            c = 'error:%s' % e
        if c == z:
            agree += 1
        elif c in ('unknown', None) or str(c).startswith('error'):
            unknown += 1
            print('  cvc5 inconclusive on', f, c)
        else:
            disagree += 1
            print('  DISAGREE', f, 'z3', z, 'cvc5', c)
    print('solver diff: %d queries, %d agree, %d cvc5-inconclusive, %d disagree (%.1fs)' % (len(files), agree, unknown, disagree, time.time() - t))
    return 0 if disagree == 0 and agree > 0 else 3


if __name__ == '__main__':
    sys.exit(main())

#!/bin/bash
# usage: [TIER=quick|thorough] tools/run_checks.sh C01 C02 ...   -- run checks one after another, one summary line each
cd /verif
mkdir -p .scratch/logs
for p in "$@"; do
  /usr/bin/time -f "%e s" python3-vt check.py $p --tier ${TIER:-quick} > .scratch/logs/check_$p.log 2>&1
  echo "$p exit=$? $(grep -v KNOWN-FINDING .scratch/logs/check_$p.log | tail -2 | tr '\n' ' ')"
done

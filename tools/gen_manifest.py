#!/usr/bin/env python3
"""Regenerate /verif/MANIFEST.json from the table below (keeps it valid)."""
import json, os
V = os.path.dirname(os.path.dirname(os.path.abspath(__file__)))
props = [json.loads(l) for l in open(os.path.join(V, 'properties.jsonl'))]

CLAIMED = {
 'C01': dict(level='model_checking', technique='bounded symbolic execution of the real modules (z3) against a from-scratch reference model; counterexamples replayed on the real OS',
             text='Every explored history of skeleton programs on a symbolic tree is closed by a z3 validity query comparing the real FileBuilder with a naive from-scratch builder (value / exception class / tree / contents). Bounded: skeleton families, universe, history length.',
             note='Trusted: the symbolic environment model (validated by the repo test-suite on the model, differential op sequences and real-OS replays), the proxy semantics, z3, the reference model as a transcription of the documented equivalence.'),
 'C18': dict(level='model_checking', technique='symbolic execution of JsonUtil with z3 (unbounded ints, string atoms); laws as validity queries',
             text='The laws are checked for every value template up to the depth/width bound with symbolic leaves, by feasibility-driven path exploration of the real JsonUtil and validity queries against an independent specification of JSON equality and the JSON round trip.',
             note='Trusted: proxy semantics for int/bool/float/str leaves (strings as ordered atoms), z3; concrete cross-check against the real json module on replays.'),
 'C02': dict(level='fault_enumeration', technique='bounded symbolic execution (z3) with a symbolic crash point; pre/post snapshot and twin-history assertions discharged as validity queries; replay on the real OS',
             text='A symbolic crash position (function, statement boundary) is placed in every skeleton program on history prefixes none/B/B.M; after the failing build the pre-snapshot (bytes, mtime, cache file included) must be back, nothing new may remain, and the next build is compared with its twin run on the restored pre-state.',
             note='Trusted: environment model, proxies, z3, reference model; crash points are statement boundaries of user code (not arbitrary bytecodes).'),
 'C04': dict(level='model_checking', technique='bounded symbolic execution (z3): full query probe at every program point compared with the reference view; consistency laws on the answers',
             text='At function start, after the nested body, after the write and after every statement all 8 query kinds are issued on every universe path and compared with the from-scratch reference view; four consistency laws are asserted on the implementation answers alone.',
             note='Trusted: environment model, proxies, z3, reference view; cache-directory visibility excluded as the property allows.'),
 'C06': dict(level='model_checking', technique='bounded symbolic execution (z3) with symbolic version values; invalidation set asserted as iff formulas against spec-level JSON equality',
             text='Version values are JSON templates with symbolic leaves; for every call graph the re-executed set must equal {changed} plus transitive callers, decided by validity queries against an independent JSON-equality formula; results compared with the reference using the new behaviour.',
             note='Trusted: environment model, proxies, z3, spec_equal formula.'),
 'C13': dict(level='model_checking', technique='symbolic execution (z3) with unconstrained content id / size / mtime; the statement as an iff formula',
             text='re-executed <=> content changed (HASH) / size or mtime changed (METADATA) is a validity query over unbounded integers for inputs, output integrity and read-back, at top level and nested.',
             note='Trusted: environment model (stat/size/mtime/sha256 stubs), proxies, z3.'),
 'C12': dict(level='model_checking', technique='bounded symbolic execution (z3) of clean at symbolic history positions against the reference clean',
             text='clean is inserted after commits, rollbacks, tampering and a previous clean; the resulting tree must equal the reference clean tree, clean twice equals once, clean without cache is a no-op and the following build must run everything.',
             note='Trusted: environment model, reference model, z3.'),
 'C03': dict(level='model_checking', technique="bounded symbolic execution (z3): identity snapshot of every path outside the managed set before/after each API call, plus an allow-list over the library's mutating system calls",
             text='Every universe path may initially be a foreign file or directory and mutations plant more; after every build (committed or rolled back) and clean the (inode, content id, mtime) of all foreign files must be unchanged (validity query) and no directory outside the recorded created set may disappear; every remove/rename/rmdir/rmtree/open-for-write the library issues is checked against the managed set.',
             note='Trusted: environment model and its call log, reference model for the managed set, z3.'),
 'C05': dict(level='model_checking', technique='bounded symbolic execution (z3) with a justification oracle computed from two from-scratch reference traces; invoked => justified as a validity query; strict unchanged rebuilds',
             text='For every committed build of histories B.M.B.B.B each function invocation in the next build must be justified (no successful record, changed observation trace in its recorded subtree, changed output, nested setup failure); unchanged rebuilds may only re-run calls that raised, must not rewrite outputs (inode, mtime) and must return an equal value.',
             note="Trusted: environment model, reference model and its traces as the definition of 'observed', z3."),
 'C10': dict(level='model_checking', technique='bounded symbolic execution (z3) of one build_file call from symbolic states of the target and all ancestors, with injected mkdir failures; contract assertions plus comparison with the reference',
             text='Target and every ancestor are symbolic (absent, foreign file, foreign directory, stale output, stale directory), the failure mode and the level at which mkdir fails are holes; success and failure clauses of the contract are asserted directly on the real state and the virtual view right after the call and on the tree after the build.',
             note='Trusted: environment model, reference model, z3; over-long names modelled as a failing mkdir.'),
 'C11': dict(level='model_checking', technique='symbolic execution (z3) of API edges with in-place mutations of passed / returned values; later builds compared with the pristine value',
             text='For each value-carrying edge (arguments, fresh and cached return values of subbuild/build_file at root and nested, list_dir and walk results) user code performs an in-place mutation (5 kinds, symbolic element) and the following builds must return the pristine value, must not re-execute, and must still see real directory changes.',
             note='Trusted: environment model, proxies, z3; determinism of the user function defines the pristine value.'),
 'C15': dict(level='model_checking', technique='bounded symbolic execution (z3): after a committed build one refused call per path; identity of the whole tree (inode, content id, mtime) before/after as validity query',
             text='Every refusal class (argument types per slot, build name, cache path is a directory, each exception class of gzip+json, each wrong document class with a symbolic version value) is tried for build, build_versioned and clean on trees with outputs; the tree incl. the cache file must be identical, no temporary directory may remain and no user function may be called.',
             note='Trusted: environment model incl. the gzip/json outcome stub (validated by real-byte replays of each class), z3.'),
 'C07': dict(level='model_checking', technique='symbolic execution (z3) of pairs of calls with JSON argument templates; observed same-entry decision asserted iff an independent spec-level JSON equality formula; path spellings enumerated',
             text='Two calls with symbolic argument templates are issued in the same build (duplicate RuntimeError iff same entry) and in consecutive builds (cache hit iff same entry); the observed decision must be equivalent to name equality, path equality and spec-level JSON equality of the round-tripped arguments (validity query), and the callee must receive the round-tripped copies with exact types.',
             note='Trusted: proxies (strings as ordered atoms), environment model, z3, the spec formula; spelling of paths is enumerated, not symbolic.'),
 'C16': dict(level='model_checking', technique='bounded symbolic execution (z3): field-wise comparison of the Cache object written with the one read back, and served-from-cache values vs originals with exact types',
             text='JSON templates with symbolic leaves are returned at several nesting positions and used as version values, output names come from a legal-name list; the Cache written is compared field by field with the Cache read back (records, indexes, created directories, versions, failure markers, record count), the unchanged rebuild must serve equal values of the same types without re-execution, and clean must still remove every created directory.',
             note='Trusted: environment model; the gzip/json stub in the symbolic run (real gzip/json in the real-OS validations of each run), z3.'),
 'C14': dict(level='fault_enumeration', technique="bounded symbolic execution (z3) with a symbolic fault index over the library's own mutating system calls; rollback assertions or comparison with a reference in which the API call in progress fails without effect",
             text='One OSError(EIO) is injected at the j-th mkdir / makedirs / rename / replace / cache open-for-write of a build, j symbolic; if it leaves build the pre-state (bytes, mtime, cache file, no new files/dirs, no temp dir) must be back, if user code catches it the value and final tree must equal the reference where that call failed in setup, and the following fault-free build must again equal the from-scratch reference.',
             note='Trusted: environment model and its call hook points, reference model, z3; faults during commit/rollback are outside the property.'),
 'C09': dict(level='model_checking', technique='bounded exploration of thread schedules: the scheduling choice at every library system call and lock acquire is a solver-chosen hole (pre-emption bounded), tree states symbolic; result compared with the sequential reference, then rebuild and clean',
             text='2-3 worker threads call build_file / subbuild on one builder under a baton scheduler whose choices are engine holes; every schedule up to the pre-emption bound is explored, for each: no deadlock, no spurious exception, values and tree equal the sequential reference, the unchanged rebuild re-executes nothing that succeeded and clean removes everything the build created.',
             note='Trusted: scheduler (switches only at environment calls and lock operations), environment model, reference model, z3.'),
 'C08': dict(level='model_checking', technique='bounded symbolic execution (z3) of duplicate placements against the reference, and bounded exploration of two-thread schedules (scheduling choices are solver-chosen holes)',
             text="Sequential placements of a duplicate build_file path / subbuild key (symbolic int/float arguments) run through the reference comparison with per-key execution counts and the rule that a caller which caught a rejection is re-executed in the next build; two threads issuing the same key are explored under every schedule up to the pre-emption bound: exactly one winner, one RuntimeError, one execution, the winner's output and record intact.",
             note='Trusted: scheduler, environment model, reference model, z3.'),
 'C17': dict(level='model_checking', technique="bounded exploration of thread schedules (scheduling choices are solver-chosen holes, pre-emption bounded) of a straggler thread racing with the owner's return, for every builder method and owner kind",
             text="For owner in {root, subbuild, build_file} returning or raising and each of the 12 builder methods called by a straggler thread, every schedule up to the bound is explored: the call either completed and is part of the owner's record (read from the cache document) or raised RuntimeError and left no record, file or directory; calls after the close always raise RuntimeError.",
             note='Trusted: scheduler (switches at environment calls and lock operations), environment model, z3. The unchanged tree has a known finding (see known_findings.json).'),
}
NA_REASON = 'check not built yet in this round (work in progress; see DESIGN.md section 12)'

checks, na = [], []
for p in props:
    i = p['id']
    c = CLAIMED.get(i)
    if c is None:
        na.append({'property_id': i, 'reason': NA_REASON})
        continue
    checks.append({
        'property_id': i,
        'quick_cmd': 'python3-vt /verif/check.py %s --tier quick' % i,
        'thorough_cmd': 'python3-vt /verif/check.py %s --tier thorough' % i,
        'evidence_file': '/verif/evidence/%s.json' % i,
        'replay_cmd_template': 'python3-vt /verif/check.py %s --replay {path}' % i,
        'engine': 'symx',
        'level_claimed': {'category': c['level'], 'text': c['text'], 'design_ref': 'DESIGN.md section 8 (%s)' % i},
        'level_note': c['note'],
        'technique': c['technique'],
    })
m = {
 'version': 1,
 'setup_cmd': 'python3-vt /verif/selftest.py',
 'hooks': {'guard': 'FILE_BUILDER_VERIF', 'enable': 'no source hooks: environment names (os, open, gzip, json, hashlib, tempfile, shutil, threading, repr) are rebound from outside in the file_builder module namespaces at check time',
           'baseline_off_cmd': 'cd /repo && /venv/bin/python -m pytest -ra -q -p no:cacheprovider --timeout=900 --continue-on-collection-errors',
           'source_commits': [], 'add_only': True},
 'engines': [{'name': 'symx', 'path': '/verif/symx', 'serves_properties': [c['property_id'] for c in checks],
              'kind_free_text': 'own concolic/symbolic execution engine on z3 5.1 (python3-vt): proxies with lying __class__, DFS by re-execution, validity query per path, real-OS replay of counterexamples'}],
 'checks': checks,
 'not_applicable': na,
 'notes': 'Exit codes: 0 held, 1 VIOLATION, 3 inconclusive/harness error. Genuine defects repaired in /repo as fix: commits are listed in known_findings.json.',
}
json.dump(m, open(os.path.join(V, 'MANIFEST.json'), 'w'), indent=1)
print('checks', len(checks), 'na', len(na))

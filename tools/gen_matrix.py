#!/usr/bin/env python3
"""Regenerate seeded/MATRIX.md from the meta.json files."""
import json, os
out = ["# Seeded changes: detection matrix", "",
       "Every change: written by an independent sub-agent, validated with tools/harvest.sh, run with tools/try_seeded.sh. "
       "\"first run\" = result of the property's quick check before any harness was extended in response.", "",
       "| change | property | first run | now detected by | needs |", "|---|---|---|---|---|"]
n = c = 0
for name in sorted(os.listdir('/verif/seeded')):
    p = '/verif/seeded/%s/meta.json' % name
    if not os.path.exists(p):
        continue
    m = json.load(open(p)); n += 1; c += m.get('first_run') == 'caught'
    out.append("| %s | %s | %s | %s | %s |" % (name, m['breaks_property'], m.get('first_run', '?'), '; '.join(m.get('detected_by', [])),
                                               m.get('needs_to_manifest', '').replace('|', '/')))
out += ["", "%d changes; %d caught on the first run, %d only after a general harness extension (described in DESIGN.md §14)." % (n, c, n - c)]
open('/verif/seeded/MATRIX.md', 'w').write('\n'.join(out) + '\n')
print(n, c)

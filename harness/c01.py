"""C01 cache transparency: every build of every history equals the from-scratch
reference (value or exception class, tree, contents)."""
from symx import logic as L
from .world import World
from .program import Program, show
from .common import Driver
from .skeletons import skeleton, U7, U9, UN3, KINDS_SMALL, KINDS_MED, KINDS_ALL
from .mutate import mutate

LEVEL = 'model_checking'
BUDGET_S = {'quick': 250, 'thorough': 1800}
MUT_PATHS = ['in', 'in/x', 'o', 'o/f', 'o/d', 'o/d/g']
MUT_KINDS = ['none', 'delete', 'write', 'touch', 'mkdir', 'rmtree', 'file2dir', 'dir2file']

BOUNDS = {
    'quick': 'universe U7 (7 symbolic paths, depth <= 3) under /s, cache /s/cache; skeleton set A with '
             'role-restricted holes; histories B.M.B and B.F.B (root crash position symbolic); one external mutation '
             '(8 kinds x 6 paths); contents, sizes and mtimes unbounded integers',
    'thorough': 'universe U9; skeleton sets A+B, all 8 query kinds; histories up to 4 steps (B.M.B.M.B, B.F.M.B, B.CL.B)',
}
ASSUMPTIONS = [
    'deterministic build functions that touch files only through the builder (by construction of the interpreter)',
    'no output path is a proper ancestor of another output path within one build',
    'every write (user, external) gets an mtime different from earlier mtimes of that path (metadata-visible '
    'modifications; same-size-same-mtime content changes are the subject of C13)',
]
WITNESSES = {'quick': ['cache-hit', 'cache-miss-after-mutation', 'build-raised'], 'thorough': ['cache-hit']}


def families(tier):
    mp4 = ['in/x', 'o', 'o/d', 'o/d/g']
    q = [
        {'name': 'A1a', 'params': {'hist': 'BMB', 'kinds': KINDS_ALL, 'roles': ['in/x', 'in', 'o', 'o/f', 'o/d']}},
        {'name': 'A2a', 'params': {'hist': 'BMB', 'kinds': KINDS_MED}},
        {'name': 'A2a', 'params': {'hist': 'BB', 'kinds': ['list_dir', 'walk'], 'roles': ['in', 'o'], 'perm': True}},
        {'name': 'A3', 'params': {'hist': 'BMB', 'kinds': ['list_dir'], 'roles': ['o'], 'targets': ['o/d/g'],
                                  'mut_paths': mp4}},
        {'name': 'A3', 'params': {'hist': 'BMB', 'kinds': ['read_m'], 'roles': ['in/x'], 'targets': ['o/f', 'in/y'],
                                  'modes': ['ok', 'raise_after'], 'mut_paths': ['in/x', 'in', 'o/f', 'in/y']}},
        {'name': 'A4', 'params': {'hist': 'BMB', 'kinds': ['is_dir', 'read_m'], 'roles': ['o'], 'targets': ['o/d/g'],
                                  'mut_paths': mp4}},
        {'name': 'A5a', 'params': {'hist': 'BMB', 'modes': ['ok', 'raise_after'], 'mut_paths': ['o', 'o/d', 'o/d/g']}},
        {'name': 'A5b', 'params': {'hist': 'BMB', 'modes': ['ok', 'raise_before'], 'mut_paths': ['o', 'o/d', 'o/d/g']}},
        {'name': 'A6', 'params': {'hist': 'BMB', 'kinds': ['is_dir', 'list_dir'], 'mut_paths': ['o/d', 'o/x']}},
        {'name': 'A7', 'params': {'hist': 'BMB', 'kinds': ['is_file'], 'roles': ['in/x'], 'targets': ['o/f'],
                                  'mut_paths': ['in/x', 'in', 'o/f']}},
        {'name': 'A8', 'params': {'hist': 'BB', 'kinds': ['is_dir', 'is_file', 'list_dir']}},
        {'name': 'A3', 'params': {'hist': 'BFB', 'kinds': ['is_file'], 'roles': ['in/x'], 'targets': ['o/d/g'],
                                  'modes': ['ok', 'raise_after']}},
    ]
    q.append({'name': 'N3', 'params': {'hist': 'BMB', 'universe': UN3, 'kinds': ['is_dir', 'list_dir', 'exists'], 'roles': ['o'],
                                    'bf_modes': ['ok', 'raise_before'], 'mut_paths': ['o'], 'mut_kinds': ['delete', 'rmtree', 'dir2file'],
                                    'inner_q': ['is_dir', 'list_dir'], 'inner_roles': ['o']}, 'weight': 2})
    q.append({'name': 'A3r', 'params': {'hist': 'BMB', 'kinds': ['is_dir', 'exists', 'list_dir'], 'roles': ['o'], 'targets': ['o/d/g'], 'modes': ['ok'],
                                     'mut_paths': ['o/d', 'o/d/g'], 'mut_kinds': ['delete', 'rmtree', 'dir2file', 'file2dir', 'write']}, 'weight': 1})
    q.append({'name': 'B9', 'params': {'hist': 'BMB', 'universe': ['o', 'o/d'], 'kinds': ['is_dir', 'list_dir', 'exists'],
                                    'mut_paths': ['o', 'o/d'], 'mut_kinds': ['none', 'rmtree', 'mkdir']}, 'weight': 2})
    q.append({'name': 'B10', 'params': {'hist': 'BMB', 'universe': ['o', 'o/d', 'o/d/z'], 'kinds': ['is_dir', 'list_dir', 'exists'],
                                     'mut_paths': ['o', 'o/d', 'o/d/z'], 'mut_kinds': ['none', 'rmtree', 'delete', 'mkdir']}, 'weight': 2})
    q.append({'name': 'A10', 'params': {'hist': 'BMB', 'kinds': ['is_dir', 'list_dir'], 'mut_paths': ['o/d/g', 'o/d', 'o/f'],
                                     'mut_kinds': ['none', 'delete', 'rmtree', 'write']}, 'weight': 1})
    # two outputs of one reused function, recorded under either comparison mode, tampered with / deleted between the builds
    q.append({'name': 'B9', 'params': {'hist': 'BMB', 'universe': ['o', 'o/d'], 'kinds': ['is_dir'], 't1s': ['o/d/g', 'o/d/p/x'], 't2s': ['o/d/h', 'o/x'],
                                    'bf_modes': ['ok'], 'cmp': ['METADATA', 'HASH'], 'mut_paths': ['o/d/g', 'o/d/p/x', 'o/d/h', 'o/x'],
                                    'mut_kinds': ['write', 'delete']}, 'weight': 1})
    # a caching function asks about a path before its own nested build_file creates it
    q.append({'name': 'A13', 'params': {'hist': 'BMB', 'kinds': ['read_h', 'exists', 'list_dir'], 'targets': ['o/d/g', 'o/f'], 'modes': ['ok'],
                                     'universe': ['o', 'o/d'], 'mut_paths': ['o/d/g', 'o/d'], 'mut_kinds': ['none', 'write', 'delete', 'rmtree']}, 'weight': 1})
    q.append({'name': 'V1', 'params': {'hist': 'BBB', 'universe': ['o', 'o/d', 'o/d/g']}, 'weight': 1})
    q.append({'name': 'P2', 'params': {'hist': 'BBB', 'universe': ['o', 'o/d', 'o/dx']}, 'weight': 1})
    q.append({'name': 'A8b', 'params': {'hist': 'BMB', 'kinds': ['is_dir', 'list_dir'], 'mut_paths': ['o/d/z', 'o/d/e/z', 'o/d/e']}, 'weight': 1})
    q.append({'name': 'N3', 'params': {'hist': 'BB', 'universe': UN3, 'kinds': ['is_dir', 'list_dir', 'exists'], 'roles': ['o', 'o/d', 'o/m']}, 'weight': 2})
    if tier == 'quick':
        return q
    return q + [
        {'name': 'N3', 'params': {'hist': 'BMB', 'universe': UN3, 'mut_paths': ['o', 'o/d', 'o/m', 'o/d/g', 'o/m/x'],
                                  'inner_q': ['is_dir', 'list_dir']}, 'weight': 5},
        {'name': 'A3', 'params': {'hist': 'BMB', 'kinds': KINDS_SMALL, 'roles': ['in/x', 'o']}, 'weight': 4},
        {'name': 'A4', 'params': {'hist': 'BMB', 'kinds': KINDS_SMALL, 'roles': ['in/x', 'o']}, 'weight': 4},
        {'name': 'A5a', 'params': {'hist': 'BMB', 'modes': ['ok', 'raise_before', 'raise_after']}, 'weight': 3},
        {'name': 'A5b', 'params': {'hist': 'BMB', 'modes': ['ok', 'raise_before', 'raise_after']}, 'weight': 3},
        {'name': 'A6', 'params': {'hist': 'BMB', 'kinds': ['is_dir', 'list_dir', 'walk']}, 'weight': 3},
        {'name': 'A7', 'params': {'hist': 'BMB', 'kinds': KINDS_SMALL, 'roles': ['in/x', 'in']}, 'weight': 3},
        {'name': 'B1', 'params': {'hist': 'BMB', 'kinds': ['is_dir', 'list_dir']}, 'weight': 2},
        {'name': 'B2', 'params': {'hist': 'BMB'}, 'weight': 2},
        {'name': 'B9', 'params': {'hist': 'BMB', 'universe': ['o', 'o/d', 'o/f'], 'kinds': ['is_dir', 'list_dir', 'exists'],
                                  'mut_paths': ['o', 'o/d', 'o/f'], 'mut_kinds': ['none', 'rmtree', 'delete', 'mkdir', 'write']}, 'weight': 2},
        {'name': 'B3', 'params': {'hist': 'BMB'}, 'weight': 2},
        {'name': 'B6a', 'params': {'hist': 'BMB', 'kinds': KINDS_SMALL}, 'weight': 2},
        {'name': 'B6b', 'params': {'hist': 'BMB'}, 'weight': 2},
        {'name': 'B7', 'params': {'hist': 'BMB', 'kinds': KINDS_SMALL}, 'weight': 2},
        {'name': 'B8', 'params': {'hist': 'BMB'}, 'weight': 2},
        {'name': 'A1b', 'params': {'hist': 'BMB', 'kinds': KINDS_MED}, 'weight': 3},
        {'name': 'A2b', 'params': {'hist': 'BMBMB', 'kinds': KINDS_SMALL}, 'weight': 2},
        {'name': 'A3', 'params': {'hist': 'BMBMB', 'kinds': ['is_file'], 'roles': ['in/x'], 'targets': ['o/d/g'],
                                  'mut_paths': mp4}, 'weight': 4},
        {'name': 'A2a', 'params': {'hist': 'BCB', 'kinds': KINDS_SMALL}, 'weight': 1},
    ]


def harness(eng, fam, P):
    bodies = skeleton(eng, fam, P)
    shared = {}
    progs = [Program(eng, b, shared) for b in bodies]
    eng.path_info['program'] = ' || '.join(show(b) for b in bodies)
    w = World(eng, P.get('universe', U7), sandbox=getattr(eng, 'sandbox', None), perm_listdir=P.get('perm'))
    try:
        d = Driver(eng, w)
        nb = 0
        hist = P.get('hist', 'BMB')
        desc = []
        for si, step in enumerate(hist):
            if step == 'B' or step == 'F':
                prog = progs[min(nb, len(progs) - 1)]
                crash = None
                if step == 'F':
                    crash = ('r', eng.choose('crash', len(prog.body) + 1))
                nb += 1
                versions = None
                if fam == 'V1':
                    versions = {'f': min(nb, 2)}      # build 1 runs version 1 of f, later builds version 2
                impl, ref = d.build(prog, crash=crash, versions=versions)
                d.check_same('C01', (fam, 'build%d' % nb))
                desc.append('%s->%s' % (step, impl[0]))
                if impl[0] == 'exc':
                    eng.witness('build-raised')
                if nb >= 2 and impl[0] == 'ok':
                    if len(d.impl_calls) < len(d.ref_calls):
                        eng.witness('cache-hit')
                    if d.impl_calls and 'M' in hist[:si]:
                        eng.witness('cache-miss-after-mutation')
            elif step == 'M':
                m = mutate(eng, w, str(si), P.get('mut_kinds', MUT_KINDS), P.get('mut_paths', MUT_PATHS))
                desc.append('M%s' % (m,))
            elif step == 'C':
                d.clean()
                d.check_tree('C01.clean', (fam,))
                desc.append('CL')
        eng.sample({'family': fam, 'program': eng.path_info['program'], 'history': desc})
    finally:
        w.close()

"""C09 thread-safety: concurrent use of one builder is equivalent to sequential
use, under every schedule up to a pre-emption bound."""
from symx import logic as L
from symx.common import PathAbort
from symx.fs import ABSENT, FILE, DIR
from symx.sched import Sched, FakeThreading, Deadlock, install
from .world import World
from .program import Boom
from .common import veq, exc_name
from .refmodel import RefState, ref_build, ref_clean

LEVEL = 'model_checking'
BUDGET_S = {'quick': 150, 'thorough': 1500}
BOUNDS = {
    'quick': '2 worker threads on the root builder, pre-emption bound 1 (2 for the same-dir, one-fails and deep-shared scenarios), yield point = every environment call the library makes '
             '(isfile/isdir/stat/listdir/mkdir/rename/remove/open/...) and every lock acquire; scenarios: two outputs in one new '
             'directory, in nested new directories, in directories left by the previous build, one worker failing, a worker that '
             'builds inside a subbuild, both workers building the same output (equivalent to the sequential order in which the winner goes first; P 2); directories d and d/a symbolic (absent / directory / with foreign content)',
    'thorough': 'pre-emption bound 2 (3 for the two-files-one-directory scenario), 3 workers',
}
ASSUMPTIONS = [
    'thread switches at environment calls and lock operations; in the families marked lines additionally before every '
    'source line of the library executed by a worker (one pre-emption); never between bytecodes of one line',
    'the operations issued by different workers are independent (different keys, no worker queries what another builds), except in the duplicate scenario',
]
WITNESSES = {'quick': ['preempted', 'both-succeeded', 'one-failed'], 'thorough': ['preempted']}

SCEN = {
    # name: list of worker operations (kind, target, mode)
    'same-dir': [('bf', 'd/f1', 'ok'), ('bf', 'd/f2', 'ok')],
    'nested-dirs': [('bf', 'd/a/f1', 'ok'), ('bf', 'd/b/f2', 'ok')],
    'one-fails': [('bf', 'd/f1', 'raise_after'), ('bf', 'd/f2', 'ok')],
    'both-fail': [('bf', 'd/a/f1', 'raise_before'), ('bf', 'd/f2', 'raise_after')],
    # both workers fail below two shared new directory levels
    'both-fail-deep': [('bf', 'd/a/f1', 'raise_after'), ('bf', 'd/a/f2', 'raise_before')],
    'deep-shared': [('bf', 'd/a/b/f1', 'ok'), ('bf', 'd/a/f2', 'ok')],
    'in-subbuild': [('sb-bf', 'd/f1', 'ok'), ('bf', 'd/f2', 'ok')],
    'two-subbuilds': [('sb-bf', 'd/f1', 'ok'), ('sb-bf', 'd/a/f2', 'ok')],
    # the same output from two threads: equivalent to the sequential order in which the winner goes first
    'duplicate': [('bf', 'd/a/f', 'ok'), ('bf', 'd/a/f', 'ok')],
    'three': [('bf', 'd/f1', 'ok'), ('bf', 'd/f2', 'ok'), ('bf', 'd/a/f3', 'raise_after')],
}


def families(tier):
    q = [
        {'name': 'same-dir', 'params': {'P': 1, 'hist': 'T'}, 'weight': 1},
        {'name': 'same-dir', 'params': {'P': 1, 'hist': 'BT'}, 'weight': 2},
        {'name': 'nested-dirs', 'params': {'P': 1, 'hist': 'T'}, 'weight': 1},
        {'name': 'one-fails', 'params': {'P': 1, 'hist': 'T'}, 'weight': 1},
        {'name': 'both-fail', 'params': {'P': 1, 'hist': 'T'}, 'weight': 1},
        {'name': 'deep-shared', 'params': {'P': 1, 'hist': 'T'}, 'weight': 1},
        {'name': 'in-subbuild', 'params': {'P': 1, 'hist': 'T'}, 'weight': 1},
        {'name': 'same-dir', 'params': {'P': 1, 'hist': 'BT', 'reuse': True}, 'weight': 1},
        {'name': 'in-subbuild', 'params': {'P': 2, 'hist': 'BT', 'mixed': True}, 'weight': 2},
        {'name': 'two-subbuilds', 'params': {'P': 2, 'hist': 'BT', 'mixed': True}, 'weight': 2},
        {'name': 'in-subbuild', 'params': {'P': 1, 'hist': 'BT', 'reuse': True}, 'weight': 1},
        {'name': 'nested-dirs', 'params': {'P': 1, 'hist': 'BT'}, 'weight': 1},
        {'name': 'one-fails', 'params': {'P': 1, 'hist': 'BT'}, 'weight': 1},
        {'name': 'same-dir', 'params': {'P': 1, 'hist': 'T', 'lines': True}, 'weight': 2},
        {'name': 'duplicate', 'params': {'P': 2, 'hist': 'T'}, 'weight': 2},
        {'name': 'both-fail-deep', 'params': {'P': 2, 'hist': 'T'}, 'weight': 2},
        {'name': 'duplicate', 'params': {'P': 1, 'hist': 'BT'}, 'weight': 1},
        {'name': 'duplicate', 'params': {'P': 2, 'hist': 'BT', 'reuse': True}, 'weight': 1},
        {'name': 'same-dir', 'params': {'P': 2, 'hist': 'T'}, 'weight': 2},
        {'name': 'one-fails', 'params': {'P': 2, 'hist': 'T'}, 'weight': 2},
        {'name': 'deep-shared', 'params': {'P': 2, 'hist': 'T'}, 'weight': 2},
    ]
    if tier == 'quick':
        return q
    return q + [
        {'name': 'same-dir', 'params': {'P': 3, 'hist': 'T'}, 'weight': 4},
        {'name': 'same-dir', 'params': {'P': 2, 'hist': 'BT'}, 'weight': 4},
        {'name': 'nested-dirs', 'params': {'P': 2, 'hist': 'T'}, 'weight': 3},
        {'name': 'one-fails', 'params': {'P': 2, 'hist': 'T'}, 'weight': 3},
        {'name': 'both-fail', 'params': {'P': 2, 'hist': 'T'}, 'weight': 3},
        {'name': 'deep-shared', 'params': {'P': 2, 'hist': 'T'}, 'weight': 3},
        {'name': 'three', 'params': {'P': 1, 'hist': 'T'}, 'weight': 4},
        {'name': 'duplicate', 'params': {'P': 3, 'hist': 'T'}, 'weight': 3},
        {'name': 'duplicate', 'params': {'P': 2, 'hist': 'BT'}, 'weight': 3},
        {'name': 'one-fails', 'params': {'P': 1, 'hist': 'T', 'lines': True}, 'weight': 3},
        {'name': 'in-subbuild', 'params': {'P': 1, 'hist': 'BT', 'reuse': True, 'lines': True}, 'weight': 3},
        {'name': 'nested-dirs', 'params': {'P': 1, 'hist': 'T', 'lines': True}, 'weight': 3},
        {'name': 'same-dir', 'params': {'P': 2, 'hist': 'BT', 'reuse': True}, 'weight': 3},
        {'name': 'in-subbuild', 'params': {'P': 2, 'hist': 'BT', 'reuse': True}, 'weight': 3},
        {'name': 'one-fails', 'params': {'P': 2, 'hist': 'BT'}, 'weight': 3},
    ]


class Prog:
    """The worker operations, run against the real builder (threads) or the
    reference (sequentially)."""

    def __init__(self, w, fs, ops, contents, version):
        self.w, self.fs, self.ops, self.contents, self.version = w, fs, ops, contents, version
        self.calls = []
        self.order = None

    def op(self, b, i):
        kind, rel, mode = self.ops[i]
        w = self.w
        path = w.p(rel)

        def f(b2, fn):
            self.calls.append(i)
            if mode == 'raise_before':
                raise Boom()
            w.user_write(self.fs, fn, self.contents[i])
            if mode == 'raise_after':
                raise Boom()
            return [i, self.version[i] if isinstance(self.version, list) else self.version]

        try:
            if kind == 'sb-bf':
                return b.subbuild('sb%d' % i, lambda b2: b2.build_file(path, 'f%d' % i, f))
            return b.build_file(path, 'f%d' % i, f)
        except Exception as e:
            return 'exc:' + exc_name(e)

    def sequential(self, b):
        if self.order:
            res = {}
            for i in self.order:
                res[i] = self.op(b, i)
            return [res[i] for i in range(len(self.ops))]
        return [self.op(b, i) for i in range(len(self.ops))]


def harness(eng, fam, P):
    from file_builder import FileBuilder
    ops = SCEN[fam]
    w = World(eng, ['d', 'd/a', 'd/z'] if not P.get('lines') else ['d'], sandbox=getattr(eng, 'sandbox', None))
    contents = [eng.fresh_int('c%d' % i) for i in range(len(ops))]
    eng.path_info.update({'scenario': fam, 'ops': ops, 'P': P['P']})
    state = RefState()
    try:
        w.bind({'threading': FakeThreading()})
        sig = (fam, P['hist'], 'P%d' % P['P'])
        version = 0 if P.get('reuse') else 1
        if P.get('mixed'):
            # the first worker's function has a new version (it is re-executed), the others are served from the cache
            version = [1] + [0] * (len(ops) - 1)
        if 'B' in P['hist']:
            # a sequential, committed build first: the threaded build then meets its outputs and directories
            pi = Prog(w, w.fs, ops, contents, 0)
            pr = Prog(w, w.ref, ops, contents, 0)
            try:
                FileBuilder.build_versioned(w.cache, 'n', {'f%d' % i: 0 for i in range(len(ops))}, pi.sequential)
            except Exception:
                raise PathAbort()
            ref_build(w.ref, w.cache, state, pr.sequential)
            # different names would all miss the cache; a changed version makes every function rerun over stale outputs
        pi = Prog(w, w.fs, ops, contents, version)
        pr = Prog(w, w.ref, ops, contents, version)
        info = {}

        def root(b):
            s = Sched(eng, P['P'], lines=bool(P.get('lines')))
            hook = install(w, s)
            res = {}
            ts = []
            for i in range(len(ops)):
                ts.append(s.spawn(lambda i=i: res.__setitem__(i, pi.op(b, i)), 'w%d' % i))
            try:
                s.run_all()
            finally:
                w.env.hooks.remove(hook)
                s.close()
                info['preempts'] = s.preempts
                info['trace'] = s.trace[:8]
                info['thread_exc'] = [exc_name(t.exc) if t.exc is not None else None for t in ts]
            return [res.get(i) for i in range(len(ops))]

        versions = {'f%d' % i: (version[i] if isinstance(version, list) else version) for i in range(len(ops))}
        try:
            v = FileBuilder.build_versioned(w.cache, 'n', versions, root)
            impl = ('ok', v)
        except Deadlock:
            eng.check('C09.deadlock', False, sig, info=info)
            return
        except Exception as e:
            impl = ('exc', e)
        if fam == 'duplicate' and impl[0] == 'ok' and isinstance(impl[1][1], list) and not isinstance(impl[1][0], list):
            pr.order = [1, 0]
        r = ref_build(w.ref, w.cache, state, pr.sequential)
        ref = (r[0], r[1])
        eng.path_info['schedule'] = info.get('trace')
        if info.get('preempts'):
            eng.witness('preempted')
        # ---- same outcome as the sequential execution
        if impl[0] != ref[0]:
            eng.check('C09.build-outcome', False, sig + (impl[0], exc_name(impl[1]) if impl[0] == 'exc' else '-', ref[0]),
                      info={'impl': repr(impl[1])[:300], 'ref': repr(ref[1])[:300], 'schedule': info.get('trace')})
        if impl[0] == 'exc':
            eng.check('C09.exception-class', exc_name(impl[1]) == exc_name(ref[1]), sig + (exc_name(impl[1]), exc_name(ref[1])),
                      info={'impl': repr(impl[1])[:300]})
            return
        eng.check('C09.spurious-exception-in-worker', all(x is None for x in info['thread_exc']), sig, info=info)
        for i in range(len(ops)):
            eng.check('C09.return-values', veq(impl[1][i], ref[1][i]), sig + ('op%d' % i, str(impl[1][i])[:30], str(ref[1][i])[:30]),
                      info={'impl': repr(impl[1]), 'ref': repr(ref[1]), 'schedule': info.get('trace')})
        if all(not str(x).startswith('exc:') for x in impl[1]):
            eng.witness('both-succeeded')
        else:
            eng.witness('one-failed')
        _same_tree(eng, w, 'C09.tree-after-build', sig, info)
        # ---- what the next build and clean do afterwards (sequentially)
        p2 = Prog(w, w.fs, ops, contents, version)
        r2 = Prog(w, w.ref, ops, contents, version)
        try:
            v2 = FileBuilder.build_versioned(w.cache, 'n', versions, p2.sequential)
        except Exception as e:
            eng.check('C09.rebuild-raised', False, sig + (exc_name(e),), info={'exc': repr(e)[:300]})
        ref_build(w.ref, w.cache, state, r2.sequential)
        should_rerun = [i for i in range(len(ops)) if str(ref[1][i]).startswith('exc:')]
        eng.check('C09.unchanged-rebuild-reexecutes', set(p2.calls) <= set(should_rerun), sig + ('rerun',),
                  info={'reexecuted': p2.calls, 'expected_at_most': should_rerun, 'schedule': info.get('trace')})
        _same_tree(eng, w, 'C09.tree-after-rebuild', sig, info)
        FileBuilder.clean(w.cache, 'n')
        ref_clean(w.ref, w.cache, state)
        _same_tree(eng, w, 'C09.tree-after-clean', sig, info)
        eng.sample({'scenario': fam, 'ops': ops, 'preemption_bound': P['P'], 'schedule_switches': info.get('trace')})
    finally:
        Sched.cur = None
        w.close()


def _same_tree(eng, w, name, sig, info):
    a, b = w.snap(w.fs), w.snap(w.ref)
    conds = []
    for p in sorted(set(a) | set(b)):
        ka = a[p][0] if p in a else '-'
        kb = b[p][0] if p in b else '-'
        if ka != kb:
            eng.check(name, False, sig + (w.rel(p), ka, kb), info={'path': w.rel(p), 'impl': ka, 'ref': kb, 'schedule': info.get('trace')})
        elif ka == 'F':
            conds.append(L.eq(a[p][2], b[p][2]))
    eng.check(name + '.content', L.and_(*conds), sig)

"""World = the implementation-side file system (ModelFS, or the real OS in a
sandbox for replays) + environment namespaces bound into the repo + a
reference-side ModelFS holding the same initial tree (same symbolic variables).
"""
import posixpath

from symx.common import is_sym, HarnessError
from symx.fs import ModelFS, Node, ABSENT, FILE, DIR, implies_present_dir
from symx.env import ModelEnv, RealEnv, RealFS, Content
from symx.bind import bind, unbind


class World:
    def __init__(self, eng, universe, cache_rel='cache', sandbox=None, fixed=None, perm_listdir=False):
        """universe: relative paths, parent-first, each symbolic (kind, cid,
        mtime).  fixed: {rel: 'D' | ('F', cid_name)} concrete initial nodes."""
        self.eng = eng
        self.real = sandbox is not None
        self.sandbox = sandbox
        self.root = posixpath.join(sandbox, 's') if self.real else '/s'
        self.universe = list(universe)
        self.ref = ModelFS(eng, self.root)
        if self.real:
            self.fs = RealFS(eng, sandbox)
            self.env = RealEnv(self.fs)
        else:
            self.fs = ModelFS(eng, self.root)
            self.env = ModelEnv(self.fs)
        self.cache = self.p(cache_rel)
        self.env.perm_listdir = bool(perm_listdir)
        self.vars = {}
        for rel, spec in (fixed or {}).items():
            self._add_fixed(rel, spec)
        for rel in self.universe:
            self._add_symbolic(rel)
        self.bound = False

    def p(self, rel):
        return posixpath.join(self.root, rel) if rel else self.root

    def rel(self, path):
        return path[len(self.root) + 1:]

    def _add_fixed(self, rel, spec):
        path = self.p(rel)
        if spec == 'D':
            self.ref.add_dir(path)
            self.fs.add_dir(path)
        else:
            cid = self.eng.fresh_int('cid:' + rel)
            mt = self.eng.fresh_int('mt:' + rel, 0, 2 ** 62)
            self.ref.add_file(path, cid, mt)
            self.fs.add_file(path, cid, mt)
            self.vars[rel] = (FILE, cid, mt)

    def _add_symbolic(self, rel):
        eng = self.eng
        path = self.p(rel)
        k = eng.fresh_int('k:' + rel, 0, 2)
        cid = eng.fresh_int('cid:' + rel)
        mt = eng.fresh_int('mt:' + rel, 0, 2 ** 62)
        par = posixpath.dirname(rel)
        if par:
            if par in self.vars:
                pk = self.vars[par][0]
                eng.constrain(implies_present_dir(k, pk))
            else:
                pn = self.ref.nodes.get(self.p(par))
                if pn is None or pn.kind != DIR:
                    raise HarnessError('universe must be parent-first: ' + rel)
        self.vars[rel] = (k, cid, mt)
        self.ref.nodes[path] = Node(k, cid, mt, self.ref._ino())
        if self.real:
            if k == FILE:
                self.fs.add_file(path, cid, mt)
            elif k == DIR:
                self.fs.add_dir(path)
        else:
            self.fs.nodes[path] = Node(k, cid, mt, self.fs._ino())

    # ------------------------------------------------------------ binding
    def bind(self, extra=None):
        bind(self.env, extra)
        self.bound = True

    def close(self):
        unbind()
        if self.real:
            import shutil
            shutil.rmtree(self.sandbox, ignore_errors=True)

    # ------------------------------------------------------------ user / external actions
    def user_write(self, fs, path, cid):
        """What a build_file function does to create its target."""
        from .mutate import fresh_mtime
        mt = self.eng.fresh_int('umt', 0, 2 ** 62)
        if fs is not self.ref:
            mt = fresh_mtime(self.eng, self, path)
        fs.open_write(path, cid=cid, mtime=mt)

    def cid_of(self, data, fs=None):
        if isinstance(data, Content):
            return data.cid
        if isinstance(data, (bytes, bytearray)):
            return (fs or self.fs).cid_of_bytes(bytes(data))
        raise HarnessError('unexpected read result %r' % (data,))

    def both(self):
        return (self.fs, self.ref)

    def ext_write(self, path, cid, mtime):
        for f in self.both():
            f.open_write(path, cid=cid, mtime=mtime)

    def ext_touch(self, path, mtime):
        for f in self.both():
            f.utime(path, mtime)

    def ext_chmod(self, path, perm):
        for f in self.both():
            f.chmod(path, perm)

    def ext_remove(self, path):
        for f in self.both():
            f.remove(path)

    def ext_mkdir(self, path):
        for f in self.both():
            f.mkdir(path)

    def ext_rmdir(self, path):
        for f in self.both():
            f.rmdir(path)

    def ext_rmtree(self, path):
        for f in self.both():
            f.rmtree(path)

    # ------------------------------------------------------------ save / restore of the implementation tree
    def save_impl(self):
        if self.real:
            import shutil
            bak = posixpath.join(self.sandbox, 'saved')
            shutil.rmtree(bak, ignore_errors=True)
            shutil.copytree(self.root, bak, symlinks=True)
            return bak
        return {p: Node(n.kind, n.cid, n.mtime, n.ino, n.payload) for p, n in self.fs.nodes.items()}

    def restore_impl(self, saved):
        if self.real:
            import shutil
            shutil.rmtree(self.root)
            shutil.copytree(saved, self.root, symlinks=True)
            return
        self.fs.nodes = {p: Node(n.kind, n.cid, n.mtime, n.ino, n.payload) for p, n in saved.items()}

    # ------------------------------------------------------------ observation
    def snap(self, fs, exclude_tmp=True):
        s = fs.snapshot(self.root, exclude=(self.cache,))
        return s

    def tmp_leftovers(self):
        """temp directories created by the library that still exist"""
        out = []
        for d in self.fs.tmpdirs:
            if self.fs.kind(d) != ABSENT:
                out.append(d)
        return out

"""C04 virtual view: every query at every point of a build answers as the
from-scratch reference view, and the answers are mutually consistent."""
import posixpath

from symx.common import is_sym
from symx import logic as L
from .world import World
from .program import Program, show, do_query, QUERY_KINDS, EXTRA_KINDS
from .common import Driver, veq, diff_sig
from .skeletons import pick, bf_opts, U7, UN3, skeleton
from .mutate import mutate
from .refmodel import DirSize

LEVEL = 'model_checking'
BUDGET_S = {'quick': 150, 'thorough': 1500}
BOUNDS = {
    'quick': 'universe U7; programs BF(t, mode)[BF(t2, mode)] and BF;BF with every success/failure mode, nest <= 2; '
             'full probe (8 query kinds x 9 paths) at function start, after the nested body, after the write, and after '
             'every statement; histories B and B.M.B (stale outputs, stale directories, foreign files, swaps); a failed (caught) '
             'build_file whose path a later build_file of the same build uses as a directory (S1)',
    'thorough': 'universe U9, nest <= 3, three-build histories',
}
ASSUMPTIONS = [
    'cache file directly under the (existing) root: directories that exist only to hold the cache file are not observed',
    'every write gets an mtime different from earlier mtimes of that path (METADATA reads)',
]
WITNESSES = {'quick': ['probe-inside-function', 'stale-dir-probed', 'failed-output-probed'],
             'thorough': ['probe-inside-function']}

MODES = ['ok', 'raise_before', 'raise_after', 'no_create', 'nonjson']
PROBE_KINDS = list(QUERY_KINDS) + list(EXTRA_KINDS)


def families(tier):
    q = [
        {'name': 'one', 'params': {'hist': 'B', 'targets': ['o/f', 'o/d/g', 'in/y', 'o/d']}, 'weight': 1},
        {'name': 'one', 'params': {'hist': 'BMB', 'targets': ['o/d/g']}, 'weight': 3},
        {'name': 'nested', 'params': {'hist': 'B', 'modes': ['ok', 'raise_after', 'no_create']}, 'weight': 2},
        {'name': 'siblings', 'params': {'hist': 'BB', 'modes': ['ok', 'raise_before']}, 'weight': 2},
        {'name': 'swap', 'params': {'hist': 'BB'}, 'weight': 1},
        {'name': 'swap', 'params': {'hist': 'BMB', 'mut_paths': ['o', 'o/d'], 'mut_kinds': ['rmtree', 'delete', 'dir2file']}, 'weight': 2},
        {'name': 'N3', 'params': {'hist': 'BB', 'universe': UN3, 'kinds': ['is_dir'], 'roles': ['o'],
                                  'bf_modes': ['ok', 'raise_after']}, 'weight': 3},
        {'name': 'S1', 'params': {'hist': 'BB'}, 'weight': 1},
        {'name': 'B10', 'params': {'hist': 'BMB', 'universe': ['o', 'o/d', 'o/d/z'], 'mut_paths': ['o/d/z', 'o/d'], 'mut_kinds': ['none', 'delete', 'rmtree']}, 'weight': 1},
        {'name': 'A5c', 'params': {'hist': 'BB', 'laws_only': True}, 'weight': 1},
        {'name': 'A5d', 'params': {'hist': 'BB', 'laws_only': True}, 'weight': 1},
    ]
    if tier == 'quick':
        return q
    return q + [
        {'name': 'one', 'params': {'hist': 'BMB', 'targets': ['o/f', 'o/d/g', 'in/y', 'o/d']}, 'weight': 4},
        {'name': 'nested', 'params': {'hist': 'BMB', 'modes': MODES}, 'weight': 4},
        {'name': 'siblings', 'params': {'hist': 'BMB', 'modes': MODES}, 'weight': 4},
        {'name': 'swap', 'params': {'hist': 'BMB'}, 'weight': 2},
        {'name': 'nest3', 'params': {'hist': 'BB', 'modes': ['ok', 'raise_after']}, 'weight': 3},
    ]


def programs(eng, fam, P):
    modes = P.get('modes', MODES)
    if fam == 'one':
        t = pick(eng, 't', P['targets'])
        return [[('BF', t, bf_opts(eng, '0', modes, catch=True), [])]], [t]
    if fam == 'nested':
        t, t2 = 'o/d/g', pick(eng, 't2', ['o/d/h', 'o/f', 'o/e/k'])
        return [[('BF', t, bf_opts(eng, '0', modes, catch=True), [('BF', t2, bf_opts(eng, '1', modes, catch=True), [])])]], [t, t2]
    if fam == 'siblings':
        t, t2 = 'o/d/g', pick(eng, 't2', ['o/d/h', 'o/f'])
        return [[('BF', t, bf_opts(eng, '0', modes, catch=True), []), ('BF', t2, bf_opts(eng, '1', modes, catch=True), [])]], [t, t2]
    if fam == 'swap':
        first = eng.choose('first', 2)
        b1 = [('BF', 'o/d', bf_opts(eng, '0', ['ok', 'raise_after'], catch=True), [])]
        b2 = [('BF', 'o/d/g', bf_opts(eng, '1', ['ok', 'raise_after'], catch=True), [])]
        return ([b1, b2] if first == 0 else [b2, b1]), ['o/d', 'o/d/g']
    if fam == 'N3':
        return skeleton(eng, 'N3', P), ['o/w', 'o/m/x', 'o/d/g']
    if fam in ('A5c', 'A5d'):
        return skeleton(eng, fam, dict(P, kinds=['is_dir'], modes=['ok', 'raise_after'])), ['o/d', 'o/d/g']
    if fam in ('B9', 'B10'):
        return skeleton(eng, fam, dict(P, kinds=['is_dir'])), ['o/d/g', 'o/d/h', 'o/d/p/x', 'o/d/q/y']
    if fam == 'S1':
        # within one build: a (failing, caught) build_file on a path that a later build_file uses as a directory
        return skeleton(eng, 'S1', P), ['o/d', 'o/d/g']
    if fam == 'nest3':
        return [[('BF', 'o/d/g', bf_opts(eng, '0', modes, catch=True),
                  [('SB', 's', {'catch': True}, [('BF', 'o/d/e/h', bf_opts(eng, '1', modes, catch=True),
                                                 [('BF', 'o/f', bf_opts(eng, '2', modes, catch=True), [])])])])]], \
            ['o/d/g', 'o/d/e/h', 'o/f', 'o/d/e']
    raise ValueError(fam)


def role(w, path, targets):
    rel = w.rel(path)
    if rel in targets:
        return 'target'
    for t in targets:
        if t.startswith(rel + '/'):
            return 'target-ancestor'
    return rel.split('/')[0] + ('/..' if '/' in rel else '')


class Probe:
    def __init__(self, eng, w, paths, targets, fam):
        self.eng, self.w, self.paths, self.targets, self.fam = eng, w, paths, targets, fam
        self.answers = {'impl': {}, 'ref': {}}
        self.sides = {}

    def __call__(self, sidename, b, where):
        side = self.sides[sidename]
        ans = {}
        for rel in self.paths:
            p = self.w.p(rel)
            for k in PROBE_KINDS:
                ans[(k, rel)] = do_query(b, side, k, p)
        # keep the first visit of a probe point
        self.answers[sidename].setdefault(where, ans)
        if sidename == 'impl':
            self.laws(where, ans)

    def laws(self, where, a):
        """Consistency of the implementation's own answers."""
        eng = self.eng
        for rel in self.paths:
            isf, isd, ex = a[('is_file', rel)], a[('is_dir', rel)], a[('exists', rel)]
            eng.check('C04.law-exists', ex == (isf or isd) and not (isf and isd), (self.fam, 'exists', role(self.w, self.w.p(rel), self.targets)),
                      info={'where': where, 'path': rel, 'is_file': isf, 'is_dir': isd, 'exists': ex})
            par = posixpath.dirname(rel)
            if ex and par in self.paths:
                eng.check('C04.law-parent', a[('is_dir', par)] is True, (self.fam, 'parent', role(self.w, self.w.p(rel), self.targets)),
                          info={'where': where, 'path': rel, 'parent_is_dir': a[('is_dir', par)]})
            ld = a[('list_dir', rel)]
            if isd:
                ok = isinstance(ld, list)
                if ok:
                    for c in self.paths:
                        if posixpath.dirname(c) == rel:
                            ok = ok and ((posixpath.basename(c) in ld) == a[('exists', c)])
                eng.check('C04.law-listdir', ok, (self.fam, 'list_dir', role(self.w, self.w.p(rel), self.targets)),
                          info={'where': where, 'dir': rel, 'list_dir': ld})
                wk = a[('walk', rel)]
                ok = isinstance(wk, list) and len(wk) >= 1 and wk[0][0] == self.w.p(rel) and \
                    sorted(wk[0][1] + wk[0][2]) == (ld if isinstance(ld, list) else None)
                if ok:
                    for n in wk[0][1]:
                        c = posixpath.join(rel, n)
                        if c in self.paths:
                            ok = ok and a[('is_dir', c)] is True
                    for n in wk[0][2]:
                        c = posixpath.join(rel, n)
                        if c in self.paths:
                            ok = ok and a[('is_file', c)] is True
                eng.check('C04.law-walk', ok, (self.fam, 'walk', role(self.w, self.w.p(rel), self.targets)),
                          info={'where': where, 'dir': rel, 'walk': repr(wk)[:300], 'list_dir': ld})
            else:
                exp = 'NotADirectoryError' if isf else 'FileNotFoundError'
                eng.check('C04.law-listdir', ld == exp, (self.fam, 'list_dir-error', role(self.w, self.w.p(rel), self.targets)),
                          info={'where': where, 'dir': rel, 'list_dir': ld, 'expected': exp})
                eng.check('C04.law-walk', a[('walk', rel)] == [], (self.fam, 'walk-nondir', role(self.w, self.w.p(rel), self.targets)),
                          info={'where': where, 'dir': rel, 'walk': repr(a[('walk', rel)])[:200]})

    def compare(self, build_no):
        eng, w = self.eng, self.w
        conds = []
        ai, ar = self.answers['impl'], self.answers['ref']
        for where, ans in ai.items():
            ref = ar.get(where)
            if ref is None:
                continue
            kind_where = where.split(':')[-1]
            for key, v in ans.items():
                rv = ref[key]
                c = veq(v, rv)
                if c is True:
                    continue
                if c is False:
                    eng.check('C04.view', False,
                              (self.fam, key[0], role(w, w.p(key[1]), self.targets), kind_where) + (diff_sig(v, rv) or ('value',)),
                              info={'where': where, 'query': key[0], 'path': key[1], 'impl': repr(v)[:200], 'ref': repr(rv)[:200],
                                    'build': build_no}, fatal=False)
                else:
                    conds.append(c)
        eng.check('C04.view-values', L.and_(*conds), (self.fam, 'symbolic-values'), info={'build': build_no})
        self.answers = {'impl': {}, 'ref': {}}


def harness(eng, fam, P):
    bodies, targets = programs(eng, fam, P)
    shared = {}
    progs = [Program(eng, b, shared) for b in bodies]
    eng.path_info['program'] = ' || '.join(show(b) for b in bodies)
    w = World(eng, P.get('universe', U7), sandbox=getattr(eng, 'sandbox', None))
    paths = list(dict.fromkeys(list(P.get('universe', U7)) + targets))
    try:
        d = Driver(eng, w)
        pr = Probe(eng, w, paths, targets, fam)
        nb = 0
        for si, step in enumerate(P['hist']):
            if step == 'B':
                prog = progs[min(nb, len(progs) - 1)]
                nb += 1
                # the probe needs Side objects to issue queries: build them through the driver hook
                impl, ref = _build_with_probe(d, prog, pr)
                if P.get('laws_only'):
                    # a corner the reference model does not describe: only the consistency laws on the implementation's own
                    # answers (checked inside the probe) are obligations
                    pr.answers = {'impl': {}, 'ref': {}}
                    if impl[0] != 'ok':
                        return
                    continue
                pr.compare(nb)
                d.guard_same()
                if any(':start' in k or ':written' in k for k in pr.answers['impl']) or True:
                    pass
            else:
                mutate(eng, w, str(si), P.get('mut_kinds', ['none', 'delete', 'write', 'mkdir', 'rmtree', 'file2dir', 'dir2file']),
                       P.get('mut_paths', ['o', 'o/d', 'o/d/g', 'o/d/z', 'o/f', 'in/y']))
        eng.sample({'family': fam, 'program': eng.path_info['program'], 'history': P['hist'], 'probe_paths': paths})
    finally:
        w.close()


def _build_with_probe(d, prog, pr):
    from .program import Side

    def probe(sidename, b, where):
        if sidename not in pr.sides:
            # a Side only used to issue probe queries (no logging)
            w = d.w
            pr.sides[sidename] = Side(w, w.fs if sidename == 'impl' else w.ref, sidename == 'ref', prog)
        if ':start' in where or ':written' in where:
            pr.eng.witness('probe-inside-function')
        pr(sidename, b, where)

    r = d.build(prog, probe=probe)
    for s in d.impl_calls:
        pass
    if d.last[0][0] == 'ok':
        v = d.last[0][1]
        if 'exc:' in repr(v):
            pr.eng.witness('failed-output-probed')
        if d.step_no > 1:
            pr.eng.witness('stale-dir-probed')
    return r

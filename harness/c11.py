"""C11 values cross the API by value: mutating arguments, returned values or
query results in user code never changes a cache key, a record or a later result."""
import copy

from symx import logic as L
from symx.fs import DIR
from .world import World
from .mutate import mutate

LEVEL = 'model_checking'
BUDGET_S = {'quick': 90, 'thorough': 600}
BOUNDS = {
    'quick': 'edges: arguments into subbuild/build_file callee; value returned by subbuild/build_file fresh and served from '
             'cache, at root level and inside a caching parent; list_dir and walk (top-down and bottom-up) results; one container object occurring several times '
             'inside the arguments or the returned value; argument shapes [i, [j]] / {} / [] / {"k": [j], "e": {}}, edited by the callee and (a hole) by the caller after the call returned; in-place mutations append / pop / '
             'clear / nested set-item / nested append on a value [i, [j], {"k": [m]}] (for returned values also {"a": [j], "i": i, "k": {"n": [m]}}) with symbolic integer leaves; histories of '
             '3 builds (unchanged rebuilds) and B.B.M.B for query results (tree of in/, in/x, in/y symbolic)',
    'thorough': 'same edges with two nested levels and 4 builds',
}
ASSUMPTIONS = ['user functions are deterministic: the pristine value is what every build must return']
WITNESSES = {'quick': ['mutated-returned-value', 'mutated-cached-value', 'mutated-listing', 'shared-container'], 'thorough': ['mutated-returned-value']}

EDGES = ['ret-sb', 'ret-bf', 'ret-sb-nested', 'ret-bf-nested', 'args-sb', 'args-bf', 'kwargs-sb', 'kwargs-bf', 'list_dir', 'walk',
         # one container object occurring twice inside a value: the two occurrences arrive as independent copies (a JSON round
         # trip has no sharing)
         'shared-args-sb', 'shared-args-bf', 'shared-ret-sb', 'shared-ret-bf',
         # the callee keeps a reference to the very object it returned and edits it after the call has returned
         'kept-ret-sb', 'kept-ret-bf']
ARG_SHAPES = ['list', 'empty-dict', 'empty-list', 'dict']
MUTS = ['append', 'pop', 'clear', 'nested-append', 'nested-setitem']


def families(tier):
    return [{'name': e, 'params': {'builds': 3 if tier == 'quick' else 4}} for e in EDGES]


def do_mut(v, how, x):
    """An in-place mutation of a JSON container (list or dict at top level)."""
    if isinstance(v, dict):
        vals = list(v.values())
        if how == 'append':
            v['new'] = x
        elif how == 'pop':
            if v:
                v.pop(sorted(v)[0])
        elif how == 'clear':
            v.clear()
        elif how == 'nested-append':
            for e in vals:
                if isinstance(e, list):
                    e.append(x)
                    return
            v['new'] = x
        else:
            for e in vals:
                if isinstance(e, dict):
                    e['z'] = x
                    return
            for e in vals:
                if isinstance(e, list) and e:
                    e[0] = x
                    return
        return
    if how == 'append':
        v.append(x)
    elif how == 'pop':
        if v:
            v.pop()
    elif how == 'clear':
        v.clear()
    elif how == 'nested-append':
        for e in v:
            if isinstance(e, list):
                e.append(x)
                return
        v.append(x)
    elif how == 'nested-setitem':
        for e in v:
            if isinstance(e, dict):
                e['z'] = x
                return
            if isinstance(e, list) and e:
                e[0] = x
                return
        if v:
            v[0] = x


def harness(eng, fam, P):
    from file_builder import FileBuilder
    how = MUTS[eng.choose('mut', len(MUTS))]
    x = eng.fresh_int('x')
    # walk: both traversal orders (the user edits the lists it gets either way)
    top_down = bool(eng.choose('top_down', 2)) if fam == 'walk' else True
    eng.path_info['top_down'] = top_down
    i, j, m = eng.fresh_int('i'), eng.fresh_int('j'), eng.fresh_int('m')
    w = World(eng, ['in', 'in/x', 'in/y'], fixed={'o': 'D'}, sandbox=getattr(eng, 'sandbox', None))
    eng.path_info.update({'edge': fam, 'mutation': how})
    calls = []

    # the returned value is a list or (ret-* edges) a dict at top level, with nested containers either way
    as_dict = bool(eng.choose('top_dict', 2)) if fam.startswith('ret-') else False
    eng.path_info['top_level'] = 'dict' if as_dict else 'list'

    def pristine():
        if as_dict:
            return {'a': [j], 'i': i, 'k': {'n': [m]}}
        return [i, [j], {'k': [m]}]

    # args / kwargs edges: the shape of the argument (a nested list, or an empty / nested dict or an empty list) and whether the
    # caller edits its own object after the call returned are holes
    is_args = fam.startswith('args') or fam.startswith('kwargs')
    arg_shape = ARG_SHAPES[eng.choose('arg_shape', len(ARG_SHAPES))] if is_args else 'list'
    caller_edits = bool(eng.choose('caller_edits', 2)) if is_args else False
    if is_args:
        eng.path_info.update({'arg_shape': arg_shape, 'caller_edits_after_call': caller_edits})

    def arg_value():
        return {'list': lambda: [i, [j]], 'empty-dict': lambda: {}, 'empty-list': lambda: [], 'dict': lambda: {'k': [j], 'e': {}}}[arg_shape]()

    def twice():
        l = [i, [j]]
        return {'a': l, 'b': l, 'c': [l, l]}

    kept = []

    def leaf_sb(b, *args, **kw):
        calls.append('leaf')
        if fam.startswith('kept-ret'):
            v_ = pristine()
            kept.append(v_)
            return v_
        if fam.startswith('shared-ret'):
            return twice()
        if fam.startswith('shared-args'):
            do_mut(args[0], how, x)        # the callee edits one parameter ...
            return [copy.deepcopy(args[1]), copy.deepcopy(kw['q'])]   # ... and reports the others
        for a in list(args) + list(kw.values()):
            if isinstance(a, list):
                do_mut(a, how, x)          # the callee edits its argument
        return pristine()

    def leaf_bf(b, fn, *args, **kw):
        calls.append('leaf')
        if fam.startswith('shared-') or fam.startswith('kept-'):
            w.user_write(w.fs, fn, 5)
            return leaf_sb(b, *args, **kw) if calls.pop() else None
        for a in list(args) + list(kw.values()):
            if isinstance(a, list):
                do_mut(a, how, x)
        w.user_write(w.fs, fn, 5)
        return pristine()

    seen = []

    def call_leaf(b, kind, args=(), kw=None):
        kw = kw or {}
        if kind == 'sb':
            return b.subbuild('leaf', leaf_sb, *args, **kw)
        return b.build_file(w.p('o/f'), 'leaf', leaf_bf, *args, **kw)

    def parent(b):
        calls.append('parent')
        r = call_leaf(b, 'sb' if 'sb' in fam else 'bf')
        snap = copy.deepcopy(r)
        do_mut(r, how, x)                  # the caller edits the returned value
        return snap

    def lister(b):
        calls.append('lister')
        if fam == 'list_dir':
            r = b.list_dir(w.p('in'))
            snap = list(r)
            if r:
                r.pop()
            r.append('ghost')
        else:
            r = b.walk(w.p('in'), top_down)
            snap = [[d, list(sd), list(sf)] for d, sd, sf in r]
            for d, sd, sf in r:
                del sd[:]                   # pruning walk's subdirectory lists
                sf.append('ghost')
        return snap

    def root(b):
        if fam in ('ret-sb', 'ret-bf'):
            r = call_leaf(b, 'sb' if fam == 'ret-sb' else 'bf')
            seen.append(copy.deepcopy(r))
            do_mut(r, how, x)
            return 0
        if fam in ('ret-sb-nested', 'ret-bf-nested'):
            r = b.subbuild('parent', parent)
            seen.append(copy.deepcopy(r))
            do_mut(r, how, x)
            return 0
        if fam in ('args-sb', 'args-bf'):
            a = arg_value()
            r = call_leaf(b, 'sb' if fam == 'args-sb' else 'bf', (a,))
            seen.append(copy.deepcopy(a))          # the caller's object is untouched
            if caller_edits:
                do_mut(a, how, x)                  # the caller goes on using (and editing) its own object after the call
            return 0
        if fam in ('kwargs-sb', 'kwargs-bf'):
            a = arg_value()
            r = call_leaf(b, 'sb' if fam == 'kwargs-sb' else 'bf', (), {'opt': a})
            seen.append(copy.deepcopy(a))
            if caller_edits:
                do_mut(a, how, x)
            return 0
        if fam.startswith('kept-ret'):
            r = call_leaf(b, 'sb' if fam.endswith('sb') else 'bf')
            seen.append(copy.deepcopy(r))
            if kept:
                do_mut(kept[-1], how, x)        # the function's own object, edited after the call returned
                del kept[:]
            return 0
        if fam.startswith('shared-args'):
            a = [i, [j]]
            r = call_leaf(b, 'sb' if fam.endswith('sb') else 'bf', (a, a), {'q': a})
            seen.append(copy.deepcopy(r))
            return 0
        if fam.startswith('shared-ret'):
            r = call_leaf(b, 'sb' if fam.endswith('sb') else 'bf')
            do_mut(r['a'], how, x)                  # the caller edits one occurrence ...
            seen.append([copy.deepcopy(r['b']), copy.deepcopy(r['c'][0]), copy.deepcopy(r['c'][1])])   # ... and looks at the others
            return 0
        r = b.subbuild('lister', lister)
        seen.append(copy.deepcopy(r))
        return 0

    try:
        w.bind()
        sig = (fam, how)
        expect_listing = None
        nb = P['builds']
        for k in range(nb):
            del calls[:]
            if fam in ('list_dir', 'walk') and k == nb - 1:
                # a real change of the directory must still be detected afterwards
                mutate(eng, w, 'm', ['delete', 'write', 'mkdir'], ['in/x', 'in/y', 'in/z'])
            try:
                FileBuilder.build(w.cache, 'n', root)
            except OSError as e:
                if fam in ('list_dir', 'walk'):
                    eng.note('listing-raised')
                    return                    # in/ is not a directory: nothing to alias
                raise
            if fam in ('list_dir', 'walk'):
                # what a fresh listing says now
                names = sorted(w.fs.children(w.p('in'))) if w.fs.kind(w.p('in')) == DIR else None
                got = seen[-1]
                if fam == 'list_dir':
                    ok = got == names
                else:
                    top = got[0 if top_down else -1] if got else None     # the entry of in/ itself comes first (top-down) or last
                    ok = (got == []) if names is None else (top is not None and top[0] == w.p('in') and sorted(top[1] + top[2]) == names)
                eng.check('C11.query-result-stale-or-corrupted', ok, sig + ('build%d' % (k + 1),),
                          info={'returned': got, 'directory now': names, 'build': k + 1})
                if 0 < k < nb - 1:
                    eng.check('C11.reexecuted-without-change', 'lister' not in calls, sig + ('build%d' % (k + 1),),
                              info={'calls': list(calls), 'build': k + 1})
                eng.witness('mutated-listing')
            elif fam.startswith('shared-'):
                eng.check('C11.occurrences-of-one-container-aliased', L.and_(*[L.eq(v_, [i, [j]]) for v_ in seen[-1]]),
                          sig + ('build%d' % (k + 1),), info={'other occurrences': repr(seen[-1])[:200], 'build': k + 1})
                if k > 0:
                    eng.check('C11.reexecuted-without-change', not calls, sig + ('build%d' % (k + 1),),
                              info={'calls': list(calls), 'build': k + 1})
                eng.witness('shared-container')
            elif fam.startswith('args') or fam.startswith('kwargs'):
                eng.check('C11.caller-argument-mutated', L.eq(seen[-1], arg_value()), sig + (arg_shape,))
                if k > 0:
                    eng.check('C11.reexecuted-without-change', not calls, sig + ('build%d' % (k + 1),),
                              info={'calls': list(calls), 'build': k + 1})
            else:
                eng.check('C11.returned-value-changed', L.eq(seen[-1], pristine(), exact_types=False), sig + ('build%d' % (k + 1),),
                          info={'returned': repr(seen[-1])[:200], 'pristine': repr(pristine())[:200], 'build': k + 1})
                if k > 0:
                    eng.check('C11.reexecuted-without-change', not calls, sig + ('build%d' % (k + 1),),
                              info={'calls': list(calls), 'build': k + 1})
                    eng.witness('mutated-cached-value')
                eng.witness('mutated-returned-value')
        eng.sample({'edge': fam, 'mutation': how, 'builds': nb})
    finally:
        w.close()

"""C02 rollback: a build whose user code raises leaves the pre-build state, and
the next build behaves as if the failed build had never run."""
from symx import logic as L
from .world import World
from .program import Program, show, Crash, Boom
from .common import Driver, veq, exc_name
from .skeletons import skeleton, U7, UN3, KINDS_SMALL
from .mutate import mutate

LEVEL = 'fault_enumeration'
BUDGET_S = {'quick': 260, 'thorough': 1800}
BOUNDS = {
    'quick': 'universe U7; skeleton set A; an OSError (or, at the data write, the ValueError json raises for an unprintable integer) while the cache file is written (open, data, rename) after the root returned (cachewrite families); crash point symbolic: any statement boundary of the root function or of any '
             'nested function (before each statement / after the last), on history prefixes none, B, B.M (deleted / '
             'tampered outputs, foreign files at targets, file<->dir swaps); then one more build (twin comparison)',
    'thorough': 'skeleton sets A+B, wider holes, two mutations before the failing build',
}
ASSUMPTIONS = [
    'a nested function that contains the crash point receives an extra argument in the failing build (its raising is a '
    'different call, not a nondeterministic function)',
    'every write gets an mtime different from earlier mtimes of that path',
]
WITNESSES = {'quick': ['rolled-back', 'rollback-restored-overwritten-file', 'rollback-after-cache-reuse', 'twin-compared', 'fault-in-cache-write'],
             'thorough': ['rolled-back', 'twin-compared']}


def families(tier):
    mp4 = ['in/x', 'o', 'o/d', 'o/d/g']
    q = [
        {'name': 'A3', 'params': {'hist': 'F', 'kinds': ['is_file'], 'roles': ['in/x'], 'targets': ['o/f', 'o/d/g', 'in/y']}},
        {'name': 'A3', 'params': {'hist': 'BF', 'kinds': ['is_file'], 'roles': ['in/x'], 'targets': ['o/d/g'],
                                  'modes': ['ok', 'raise_after', 'no_create']}},
        {'name': 'A3', 'params': {'hist': 'BMF', 'kinds': ['is_file'], 'roles': ['in/x'], 'targets': ['o/d/g'],
                                  'modes': ['ok', 'raise_after'], 'mut_paths': mp4}, 'weight': 3},
        {'name': 'A5a', 'params': {'hist': 'BMF', 'modes': ['ok'], 'mut_paths': ['o/d', 'o/d/g']}, 'weight': 3},
        {'name': 'A5b', 'params': {'hist': 'BMF', 'modes': ['ok'], 'mut_paths': ['o/d', 'o/d/g']}, 'weight': 2},
        {'name': 'A4', 'params': {'hist': 'BMF', 'kinds': ['is_dir'], 'roles': ['o'], 'targets': ['o/d/g'],
                                  'modes': ['ok', 'raise_after'], 'mut_paths': ['o/d', 'o/d/g']}, 'weight': 2},
        {'name': 'A8', 'params': {'hist': 'BF', 'kinds': ['is_dir']}},
    ]
    # a build_file nested below the unfinished output of its enclosing build_file (a corner the reference model does not
    # describe): only the reference-free obligations - pre-state restored, next build = its twin on the restored pre-state
    q.append({'name': 'A5c', 'params': {'hist': 'F', 'kinds': ['is_dir'], 'modes': ['ok', 'raise_after'], 'no_reference': True}, 'weight': 1})
    q.append({'name': 'A5c', 'params': {'hist': 'BF', 'kinds': ['is_dir'], 'modes': ['ok', 'raise_after'], 'no_reference': True}, 'weight': 1})
    q.append({'name': 'A5d', 'params': {'hist': 'F', 'kinds': ['is_dir'], 'modes': ['ok', 'raise_after'], 'no_reference': True}, 'weight': 1})
    q.append({'name': 'A5d', 'params': {'hist': 'BF', 'kinds': ['is_dir'], 'modes': ['ok', 'raise_after'], 'no_reference': True}, 'weight': 1})
    # the directory that holds the cache file is itself turned into an output file (or back): the cache write then fails
    q.append({'name': 'A8', 'params': {'hist': 'BB', 'kinds': ['is_dir'], 'swap_dir': 'c', 'swap_file': 'c/x', 'cache': 'c/cache',
                                       'universe': ['c', 'o', 'o/f'], 'no_reference': True}, 'weight': 1})
    # a previous output is used as a directory by the failing build, and creating that directory fails: nothing gets built,
    # but the old output had already been moved aside
    q.append({'name': 'A8', 'params': {'hist': 'BF', 'kinds': ['is_dir'], 'mkdir_fault': 'o/d', 'no_reference': True}, 'weight': 1})
    q.append({'name': 'backups', 'params': {}, 'weight': 1})
    # '... or while the cache file is being written': an OSError at the open / data write / final rename of the cache write
    q.append({'name': 'cachewrite', 'params': {'skel': 'A3', 'hist': 'X', 'kinds': ['is_dir'], 'roles': ['o'], 'targets': ['o/d/g'],
                                               'modes': ['ok'], 'fault_excs': ['OSError', 'ValueError'], 'cache': 'c/cache',
                                               'universe': ['c', 'o', 'o/d', 'o/d/g', 'in', 'in/x']}, 'weight': 1})
    # ... with the cache file in a directory that the previous build created (and recorded)
    q.append({'name': 'cachewrite', 'params': {'skel': 'A3', 'hist': 'BX', 'kinds': ['is_dir'], 'roles': ['o'], 'targets': ['o/d/g', 'c/t'],
                                               'modes': ['ok'], 'cache': 'c/cache', 'universe': ['c', 'o', 'o/d', 'o/d/g', 'in', 'in/x']}, 'weight': 1})
    q.append({'name': 'cachewrite', 'params': {'skel': 'A3', 'hist': 'BMX', 'kinds': ['is_dir'], 'roles': ['o'], 'targets': ['o/d/g'],
                                               'modes': ['ok'], 'mut_paths': ['o/d/g', 'o/d']}, 'weight': 1})
    q.append({'name': 'P2', 'params': {'hist': 'BF', 'universe': ['o', 'o/d', 'o/dx']}, 'weight': 1})
    q.append({'name': 'A8b', 'params': {'hist': 'BMF', 'kinds': ['is_dir'], 'mut_paths': ['o/d/z', 'o/d/e'], 'catch': False}, 'weight': 1})
    q.append({'name': 'S1', 'params': {'hist': 'F'}, 'weight': 1})
    q.append({'name': 'S1', 'params': {'hist': 'BF'}, 'weight': 1})
    q.append({'name': 'N3', 'params': {'hist': 'BF', 'universe': UN3, 'kinds': ['is_dir'], 'roles': ['o'],
                                     'bf_modes': ['ok', 'raise_after']}, 'weight': 3})
    if tier == 'quick':
        return q
    return q + [
        {'name': 'A5a', 'params': {'hist': 'BMF', 'modes': ['ok', 'raise_after'], 'mut_paths': ['o/d', 'o/d/g', 'o/f']}, 'weight': 4},
        {'name': 'A5b', 'params': {'hist': 'BMF', 'modes': ['ok'], 'mut_paths': mp4}, 'weight': 3},
        {'name': 'A3', 'params': {'hist': 'BMF', 'kinds': KINDS_SMALL, 'roles': ['in/x', 'o']}, 'weight': 4},
        {'name': 'A5a', 'params': {'hist': 'BMF', 'modes': ['ok', 'raise_before', 'raise_after']}, 'weight': 4},
        {'name': 'A5b', 'params': {'hist': 'BMF', 'modes': ['ok', 'raise_before', 'raise_after']}, 'weight': 4},
        {'name': 'A6', 'params': {'hist': 'BMF', 'kinds': ['is_dir']}, 'weight': 3},
        {'name': 'B3', 'params': {'hist': 'BMF'}, 'weight': 3},
        {'name': 'B6b', 'params': {'hist': 'BMF'}, 'weight': 3},
        {'name': 'A3', 'params': {'hist': 'BMMF', 'kinds': ['is_file'], 'roles': ['in/x'], 'targets': ['o/d/g'],
                                  'modes': ['ok', 'raise_after'], 'mut_paths': mp4}, 'weight': 4},
    ]


def pick_crash(eng, prog):
    """A symbolic crash point: (function sid, statement boundary)."""
    sids = ['r'] + [f[0] for f in prog.functions]
    sid = sids[eng.choose('crash_fn', len(sids))]
    n = len(_body_of(prog.body, sid))
    return (sid, eng.choose('crash_pos', n + 1))


def _body_of(body, sid, cur='r'):
    if sid == cur:
        return body
    for i, st in enumerate(body):
        c = '%s.%d' % (cur, i)
        if st[0] in ('BF', 'SB') and (sid == c or sid.startswith(c + '.')):
            return _body_of(st[3], sid, c)
        if st[0] == 'IF':
            for suffix, b in (('t', st[2]), ('e', st[3])):
                if sid.startswith(c + suffix):
                    return _body_of(b, sid, c + suffix)
    return []


def check_rollback(eng, w, d, pre, prev_created, sig):
    """State after a failed build vs the snapshot before it."""
    post = w.fs.snapshot(w.root)
    conds = []
    for p, s in pre.items():
        q = post.get(p)
        if s[0] == 'F':
            if q is None or q[0] != 'F':
                eng.check('C02.file-lost', False, sig + (w.rel(p) if p != w.cache else 'cache',),
                          info={'path': w.rel(p), 'after': q and q[0]})
            else:
                conds.append(L.eq(s[2], q[2]))
                conds.append(L.eq(s[3], q[3]))
        else:
            eng.check('C02.dir-lost', q is not None and q[0] == 'D', sig + (w.rel(p),), info={'path': w.rel(p)})
    eng.check('C02.bytes-and-mtime', L.and_(*conds), sig)
    for p, q in post.items():
        if p in pre:
            continue
        if q[0] == 'F':
            eng.check('C02.new-file-left', False, sig + (w.rel(p),), info={'path': w.rel(p)})
        else:
            ok = any(c == p or c.startswith(p + '/') for c in prev_created)
            eng.check('C02.new-dir-left', ok, sig + (w.rel(p),), info={'path': w.rel(p)})
    eng.check('C02.temp-dir-left', not w.tmp_leftovers(), sig)


def backups_family(eng, P, prop='C02'):
    """FileBackups in isolation at an arbitrary backup index (the backup path arithmetic only changes shape after 128 and
    128**2 backups, far beyond what a generated build reaches): three files moved aside at indices i, i+1 and i+128 must
    all come back, bytes and mtime, after restore_all().  The index is an engine hole over [0, 128*129+130)."""
    from file_builder.file_backups import FileBackups
    w = World(eng, [], fixed={'d': 'D', 'd/f1': 'F', 'd/f2': 'F', 'd/f3': 'F'}, sandbox=getattr(eng, 'sandbox', None))
    try:
        w.bind()
        i = eng.choose('backup_index', P.get('n', 128 * 129 + 130))
        eng.path_info['backup_index'] = i
        sig = ('backups',)
        f1, f2, f3 = w.p('d/f1'), w.p('d/f2'), w.p('d/f3')
        pre = w.fs.snapshot(w.root)
        with FileBackups() as fb:
            fb._next_backup_index = i
            r1 = fb.back_up_and_remove(f1)
            r2 = fb.back_up_and_remove(f2)
            fb._next_backup_index = i + 128
            r3 = fb.back_up_and_remove(f3)
            eng.check(prop + '.backup-refused', r1 is True and r2 is True and r3 is True, sig + ('index-class-%d' % (0 if i < 128 else 1 if i < 128 * 128 else 2),),
                      info={'index': i, 'results': [r1, r2, r3]})
            mid = w.fs.snapshot(w.root)
            eng.check(prop + '.backup-did-not-move-file', not any(p in mid for p in (f1, f2, f3)), sig, info={'index': i})
            w.user_write(w.fs, f1, eng.fresh_int('newcontent'))      # the build overwrites one of them
            fb.restore_all()
            post = w.fs.snapshot(w.root)
            conds = []
            for p in (f1, f2, f3):
                a, b = pre.get(p), post.get(p)
                if b is None or b[0] != 'F':
                    eng.check(prop + '.file-lost', False, sig + (w.rel(p),), info={'index': i, 'path': w.rel(p)})
                conds.append(L.eq(a[2], b[2]))
                conds.append(L.eq(a[3], b[3]))
            eng.check(prop + '.bytes-and-mtime', L.and_(*conds), sig)
        eng.check(prop + '.temp-dir-left', not w.tmp_leftovers(), sig)
        eng.note('nontrivial:backup-index-%s' % ('lt128' if i < 128 else 'lt16384' if i < 16384 else 'ge16384'))
        eng.witness('rolled-back')
        if i % 4000 == 0:
            eng.sample({'family': 'backups', 'backup_index': i})
    finally:
        w.close()


def harness(eng, fam, P):
    if fam == 'backups':
        return backups_family(eng, P)
    if fam == 'cachewrite':
        from . import c14
        return c14.harness(eng, P['skel'], dict(P, prop='C02', only_ops=('gzip-w', 'gzip-data', 'replace')))
    bodies = skeleton(eng, fam, P)
    shared = {}
    progs = [Program(eng, b, shared) for b in bodies]
    eng.path_info['program'] = ' || '.join(show(b) for b in bodies)
    w = World(eng, P.get('universe', U7), cache_rel=P.get('cache', 'cache'), sandbox=getattr(eng, 'sandbox', None))
    try:
        d = Driver(eng, w)
        nb = 0
        desc = []
        hist = P['hist']
        for si, step in enumerate(hist):
            prog = progs[min(nb, len(progs) - 1)]
            if step == 'B':
                nb += 1
                pre_b = w.fs.snapshot(w.root) if P.get('no_reference') else None
                prev_created_b = set(d.state.created_dirs) if w.fs.kind(w.cache) == 1 else set()
                impl, ref = d.build(prog)
                if P.get('no_reference'):
                    if impl[0] != 'ok':
                        if nb > 1:
                            # a build that fails on its own (e.g. the cache file cannot be written because its directory
                            # became an output file): the rollback obligations hold for it just the same
                            eng.note('nontrivial:build-failed-by-itself')
                            eng.witness('rolled-back')
                            check_rollback(eng, w, d, pre_b, prev_created_b, (fam, hist, 'self-failed'))
                        return
                else:
                    d.guard_same('prefix')
                desc.append('B->' + impl[0])
            elif step == 'M':
                desc.append('M%s' % (mutate(eng, w, str(si), P.get('mut_kinds', ['none', 'delete', 'write', 'mkdir', 'rmtree', 'file2dir', 'dir2file']),
                                           P.get('mut_paths', ['in/x', 'o', 'o/d', 'o/d/g'])),))
            else:
                nb += 1
                crash = pick_crash(eng, prog)
                eng.path_info['crash'] = crash
                fault_hook = None
                if P.get('mkdir_fault'):
                    # one of the library's own mkdir calls fails in this build (an over-long name): the build_file call raises
                    # before anything is built, and the build fails
                    import errno as _errno
                    fpath = w.p(P['mkdir_fault'])

                    def fault_hook(op, args, mutating):
                        if op == 'mkdir' and args[0] == fpath:
                            raise OSError(_errno.ENAMETOOLONG, 'File name too long (injected)', fpath)
                    w.env.hooks.append(fault_hook)
                pre = w.fs.snapshot(w.root)
                saved = w.save_impl()
                prev_created = set(d.state.created_dirs) if w.fs.kind(w.cache) == 1 else set()
                try:
                    impl, ref = d.build(prog, crash=crash)
                finally:
                    if fault_hook is not None and fault_hook in w.env.hooks:
                        w.env.hooks.remove(fault_hook)
                desc.append('F%s->%s' % (crash, impl[0]))
                sig = (fam, hist)
                if impl[0] != 'exc':
                    # the crash point was not reached (function served from the cache or caught): an ordinary build
                    if not P.get('no_reference'):
                        d.guard_same('nofail')
                    eng.note('crash-not-reached')
                    return
                eng.note('nontrivial:crash-fired')
                eng.witness('rolled-back')
                if isinstance(impl[1], (Crash, Boom)):
                    eng.check('C02.same-exception-object', bool(d.impl_raised) and impl[1] is d.impl_raised[-1], sig,
                              info={'exc': repr(impl[1])})
                noref = bool(P.get('no_reference'))
                if not noref:
                    d.check_same('C02.failed', sig)
                check_rollback(eng, w, d, pre, prev_created, sig)
                if d.impl_calls != d.ref_calls:
                    eng.witness('rollback-after-cache-reuse')
                post = w.fs.snapshot(w.root)
                if any(s[0] == 'F' and p not in (d.prev_state.outputs if d.prev_state else []) and p != w.cache
                       and p in [w.p(t) for t in prog.outputs()] for p, s in pre.items()):
                    eng.witness('rollback-restored-overwritten-file')
                # ---- the next build, and its twin on the restored pre-state
                impl2, ref2 = d.build(prog)
                if not noref:
                    d.check_same('C02.next', sig)
                calls2 = list(d.impl_calls)
                tree2 = w.snap(w.fs)
                w.restore_impl(saved)
                twin, tcalls = d.build_impl_only(prog)
                treet = w.snap(w.fs)
                eng.witness('twin-compared')
                eng.check('C02.twin-outcome', impl2[0] == twin[0] and
                          (impl2[0] == 'ok' or exc_name(impl2[1]) == exc_name(twin[1])), sig,
                          info={'after_failed': repr(impl2[1])[:200], 'twin': repr(twin[1])[:200]})
                if impl2[0] == 'ok':
                    eng.check('C02.twin-value', veq(impl2[1], twin[1]), sig)
                eng.check('C02.twin-invocations', calls2 == tcalls, sig, info={'after_failed': calls2, 'twin': tcalls})
                kinds_same = set(tree2) == set(treet) and all(tree2[p][0] == treet[p][0] for p in tree2)
                eng.check('C02.twin-tree', kinds_same, sig, info={'diff': sorted(w.rel(p) for p in set(tree2) ^ set(treet))})
                eng.check('C02.twin-content', L.and_(*[L.eq(tree2[p][2], treet[p][2]) for p in tree2 if tree2[p][0] == 'F']), sig)
                break
        eng.sample({'family': fam, 'program': eng.path_info['program'], 'history': desc})
    finally:
        w.close()

"""The oracle: a naive from-scratch builder that transcribes the documented
equivalence of build_versioned / clean over a ModelFS.  It calls every
build_file / subbuild function, has no cache, and knows nothing about the
library's bookkeeping.  Specification code: see DESIGN.md section 7.
"""
import posixpath

from symx.fs import Node, ABSENT, FILE, DIR
from symx.env import Content
from symx import logic as L


class DirSize:
    """get_size of a directory: file-system dependent, matches any integer."""

    def __repr__(self):
        return 'DirSize'


DIRSIZE = DirSize()


class RefState:
    """What survives between builds: the last committed build's record."""

    def __init__(self):
        self.outputs = []
        self.created_dirs = []
        self.has_cache = False

    def forget(self):
        self.outputs = []
        self.created_dirs = []
        self.has_cache = False

    def copy(self):
        c = RefState()
        c.outputs = list(self.outputs)
        c.created_dirs = list(self.created_dirs)
        c.has_cache = self.has_cache
        return c


def json_ok(v):
    """Is v a JSON value in the sense of JsonUtil.sanitize (proxies are leaves)?"""
    t = type(v)
    if v is None or getattr(t, '_is_sym', False) or t in (str, int, float, bool) or t is DirSize:
        return True
    if isinstance(v, (list, tuple)):
        return all(json_ok(x) for x in v)
    if isinstance(v, dict):
        return all((k is None or isinstance(k, (str, int, float, bool)) or getattr(type(k), '_is_sym', False)) and json_ok(x)
                   for k, x in v.items())
    if isinstance(v, (str, int, float)):
        return True
    return False


def json_norm(v):
    t = type(v)
    if isinstance(v, (list, tuple)):
        return [json_norm(x) for x in v]
    if t is dict:
        return {k: json_norm(x) for k, x in v.items()}
    return v


class RefRun:
    def __init__(self, fs, cache, trace=None):
        self.fs = fs
        self.cache = cache
        self.in_progress = set()
        self.sub_keys = []
        self.file_keys = set()
        self.outputs = []
        self.created = []       # dirs created by this run, in creation order
        self.moved_aside = {}
        self.trace = trace

    def make_dirs(self, d, view):
        """Create d and missing ancestors as seen by `view` (a RefBuilder or
        None = raw tree).  Returns the dirs created."""
        todo = []
        q = d
        while True:
            k = view._kind(q) if view is not None else self.fs.kind(q)
            if k == DIR:
                break
            if k == FILE:
                raise NotADirectoryError(q)
            if q == self.cache:
                raise NotADirectoryError(q)
            todo.append(q)
            q2 = posixpath.dirname(q)
            if q2 == q:
                raise FileNotFoundError(q)
            q = q2
        made = []
        for q in reversed(todo):
            if self.fs.kind(q) == ABSENT:
                self.fs.nodes[q] = Node(DIR, ino=self.fs._ino())
            elif self.fs.kind(q) == FILE:
                # an in-progress target in a directory position: outside the
                # documented obligations (no output is an ancestor of another)
                raise NotADirectoryError(q)
            made.append(q)
            if q not in self.created:
                self.created.append(q)
        return made


class RefBuilder:
    def __init__(self, run):
        self.run = run

    # ------------------------------------------------------------ view
    def _hidden(self, p):
        return p in self.run.in_progress or p == self.run.cache

    def _kind(self, p):
        if self._hidden(p):
            return ABSENT
        return self.run.fs.kind(p)

    def is_file(self, p):
        return self._kind(p) == FILE

    def is_dir(self, p):
        return self._kind(p) == DIR

    def exists(self, p):
        return self._kind(p) != ABSENT

    def _children(self, d):
        return [n for n in self.run.fs.children(d) if not self._hidden(posixpath.join(d, n))]

    def list_dir(self, d):
        k = self._kind(d)
        if k == FILE:
            raise NotADirectoryError(d)
        if k == ABSENT:
            raise FileNotFoundError(d)
        return self._children(d)

    def walk(self, d, top_down=True):
        out = []
        if self._kind(d) == DIR:
            self._walk(d, top_down, out)
        return out

    def _walk(self, d, top_down, out):
        subdirs, subfiles = [], []
        for n in self._children(d):
            k = self._kind(posixpath.join(d, n))
            (subdirs if k == DIR else subfiles).append(n)
        if top_down:
            out.append((d, subdirs, subfiles))
        for n in subdirs:
            self._walk(posixpath.join(d, n), top_down, out)
        if not top_down:
            out.append((d, subdirs, subfiles))

    def get_size(self, p):
        k = self._kind(p)
        if k == ABSENT:
            raise FileNotFoundError(p)
        if k == DIR:
            return DIRSIZE
        return self.run.fs.eng.size_of(self.run.fs.nodes[p].cid)

    def read(self, p, cmp=None):
        k = self._kind(p)
        if k == DIR:
            raise IsADirectoryError(p)
        if k == ABSENT:
            raise FileNotFoundError(p)
        return Content(self.run.fs.nodes[p].cid)

    def declare_read(self, p, cmp=None):
        self.read(p, cmp)
        return None

    def read_binary(self, p, cmp=None):
        return _Handle(self.read(p, cmp))

    read_text = read_binary

    # ------------------------------------------------------------ complex operations
    def subbuild(self, name, func, *args, **kwargs):
        run = self.run
        key = (name, json_norm(list(args)), json_norm(kwargs))
        for k in run.sub_keys:
            if k[0] == name and bool(L.eq(k[1], key[1])) and bool(L.eq(k[2], key[2])):
                raise RuntimeError('duplicate subbuild')
        run.sub_keys.append(key)
        r = func(RefBuilder(run), *args, **kwargs)
        if not json_ok(r):
            raise TypeError('return value is not JSON')
        return json_norm(r)

    def build_file(self, p, name, func, *args, **kwargs):
        return self.build_file_with_comparison(p, None, name, func, *args, **kwargs)

    def build_file_with_comparison(self, p, cmp, name, func, *args, **kwargs):
        run, fs = self.run, self.run.fs
        if p in run.file_keys:
            raise RuntimeError('duplicate build_file')
        if p == run.cache:
            raise RuntimeError('build_file on the cache file')
        if self._kind(p) == DIR:
            raise IsADirectoryError(p)
        made = run.make_dirs(posixpath.dirname(p), self)
        run.file_keys.add(p)
        if fs.kind(p) == FILE:
            run.moved_aside[p] = fs.nodes[p]
            fs.nodes[p] = Node(ABSENT)
        run.in_progress.add(p)
        try:
            r = func(RefBuilder(run), p, *args, **kwargs)
            if not json_ok(r):
                raise TypeError('return value is not JSON')
            if fs.kind(p) != FILE:
                raise RuntimeError('not created')
        except Exception:
            run.in_progress.discard(p)
            if fs.kind(p) == FILE:
                fs.nodes[p] = Node(ABSENT)
            for d in reversed(made):
                if fs.kind(d) == DIR and not fs.children(d):
                    fs.nodes[d] = Node(ABSENT)
                    if d in run.created:
                        run.created.remove(d)
            raise
        run.in_progress.discard(p)
        run.outputs.append(p)
        return json_norm(r)


class _Handle:
    def __init__(self, content):
        self.content = content

    def read(self, n=-1):
        return self.content

    def close(self):
        pass

    def __enter__(self):
        return self

    def __exit__(self, *a):
        return False


def wipe_previous(fs, cache, state):
    """Step 1 of the documented equivalence (also what clean does)."""
    for f in state.outputs:
        if fs.kind(f) == FILE:
            fs.nodes[f] = Node(ABSENT)
    if fs.kind(cache) == FILE:
        fs.nodes[cache] = Node(ABSENT)
    for d in sorted(state.created_dirs, key=lambda x: -len(x)):
        if fs.kind(d) == DIR and not fs.children(d):
            fs.nodes[d] = Node(ABSENT)


def ref_build(fs, cache, state, func):
    """From-scratch build on fs.  Returns ('ok', value, run) or ('exc', exception, run)."""
    ck = fs.kind(cache)
    if ck == DIR:
        return ('exc', IsADirectoryError(cache), None)
    if ck == ABSENT:
        state.forget()
    pre = {p: Node(n.kind, n.cid, n.mtime, n.ino, n.payload) for p, n in fs.nodes.items()}
    wipe_previous(fs, cache, state)
    run = RefRun(fs, cache)
    try:
        run.make_dirs(posixpath.dirname(cache), None)
        v = func(RefBuilder(run))
    except Exception as e:
        fs.nodes.clear()
        fs.nodes.update(pre)
        return ('exc', e, run)
    fs.nodes[cache] = Node(FILE, cid=-1, mtime=0, ino=fs._ino())
    state.outputs = list(run.outputs)
    state.created_dirs = [d for d in run.created if fs.kind(d) == DIR]
    state.has_cache = True
    return ('ok', v, run)


def ref_clean(fs, cache, state):
    if fs.kind(cache) == ABSENT:
        state.forget()
        return
    wipe_previous(fs, cache, state)
    state.forget()

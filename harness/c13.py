"""C13 comparison modes: HASH tracks content, METADATA tracks size + mtime_ns.
The statement itself is the oracle, as an iff formula over unbounded integers
(content id, size SZ(cid), mtime) decided by z3 on every path."""
from symx import logic as L
from symx.fs import FILE
from .world import World
from .program import Program, show
from .common import Driver
from .mutate import fresh_mtime

LEVEL = 'model_checking'
BUDGET_S = {'quick': 60, 'thorough': 400}
BOUNDS = {
    'quick': 'scenarios {input read, output integrity, output read back} x {HASH, METADATA} x {top level, nested in a '
             'subbuild, nested in a build_file}; histories B.M.B; new (content id, mtime) of the changed file are '
             'unconstrained integers (all four changed/unchanged combinations are regions of one query); one function reading / '
             'declaring the same input twice through any two of read_binary(METADATA|HASH), read_text, declare_read(HASH|METADATA); '
             'plus a pure permission change (chmod, three modes) of the input / the output: never a re-execution; plus, for input read and '
             'output integrity under HASH, the chunked content model: the library\'s read(n) loop receives pieces, file sizes from '
             '{n-1, n, n+1, 2n, 2n+1} (n = the chunk size the code itself asks for), a content differs from every other one in '
             'exactly one byte at a symbolic offset POS(c) in [0, SZ(c)), a digest of a prefix of k bytes is a function of '
             '(k, POS(c) < k, c if POS(c) < k)',
    'thorough': 'plus three-build histories B.M.B.M.B and both comparison modes for writer and reader in the read-back scenario',
}
ASSUMPTIONS = ['equal content ids have equal sizes (SZ is a function of the content id); nothing else about sizes or mtimes',
               'chunked families: contents that differ in more than one byte, sizes beyond 2n+1 and digest collisions (SHA-256 '
               'is treated as injective) are outside the claim']
WITNESSES = {'quick': ['reexecuted', 'not-reexecuted', 'chunked-read'], 'thorough': ['reexecuted', 'not-reexecuted']}

NESTS = ['top', 'in-sb', 'in-bf']
TWICE_KINDS = ['read_m', 'read_h', 'read_t', 'declare', 'declare_m']
KIND_MODE = {'read_m': 'METADATA', 'read_h': 'HASH', 'read_t': 'METADATA', 'declare': 'HASH', 'declare_m': 'METADATA'}
MODES = ['METADATA', 'HASH']


def families(tier):
    fams = [{'name': 'input', 'params': {'builds': 2}}, {'name': 'integrity', 'params': {'builds': 2}},
            {'name': 'readback', 'params': {'builds': 2}}, {'name': 'readback', 'params': {'builds': 2, 'tamper': True}},
            # a pure permission change (chmod) of an input / of an output checked for tampering
            {'name': 'input', 'params': {'builds': 2, 'chmod': True}}, {'name': 'integrity', 'params': {'builds': 2, 'chmod': True}},
            # chunked content model: the library's read(n) loop sees pieces, digests of prefixes are distinguished
            # one function declares the same file twice, under two comparison modes / through two spellings of the read API
            {'name': 'twice', 'params': {'builds': 2}},
            # the comparison mode asked for changes from build to build: a change is judged by the mode the previous build recorded
            {'name': 'integrity-switch', 'params': {'builds': 3}},
            # the watched output is not the first one its (reused) parent recorded: an earlier output lies in the same
            # directory, in a directory below it, or elsewhere
            {'name': 'integrity', 'params': {'builds': 2, 'sibling': ['o/e', 'o/d/e', 'p/e']}},
            {'name': 'input', 'params': {'builds': 2, 'chunked': True}},
            {'name': 'integrity', 'params': {'builds': 2, 'chunked': True}}]
    if tier == 'thorough':
        fams += [{'name': 'input', 'params': {'builds': 3}}, {'name': 'integrity', 'params': {'builds': 3}},
                 {'name': 'readback', 'params': {'builds': 3}}, {'name': 'readback', 'params': {'builds': 3, 'tamper': True}},
                 {'name': 'twice', 'params': {'builds': 3}},
                 {'name': 'input', 'params': {'builds': 3, 'chunked': True, 'nests': True}},
                 {'name': 'integrity', 'params': {'builds': 3, 'chunked': True, 'nests': True}}]
    return fams


def _wrap(nest, stmt, extra=()):
    if nest == 'top':
        return [stmt] + list(extra)
    if nest == 'in-sb':
        return [('SB', 'outer', {}, [stmt] + list(extra))]
    return [('BF', 'o/w', {'mode': 'ok'}, [stmt] + list(extra))]


def changed(eng, mode, old, new):
    """old/new = (cid, mtime): does the comparison mode have to see a change?"""
    if mode == 'HASH':
        return L.not_(L.eq(old[0], new[0]))
    return L.or_(L.not_(L.eq(eng.size_of(old[0]), eng.size_of(new[0]))), L.not_(L.eq(old[1], new[1])))


def _meta(w, path):
    s = w.fs.snapshot(w.root).get(path)
    return (s[2], s[3]) if s and s[0] == 'F' else None


def harness(eng, fam, P):
    chunked = bool(P.get('chunked'))
    mode = 'HASH' if chunked or fam == 'twice' else MODES[eng.choose('mode', 2)]
    # (integrity-switch: top level only - below a reused parent the call is not re-issued, so the recorded mode legitimately
    # stays the older one)
    nest = 'top' if (chunked and not P.get('nests')) or fam == 'integrity-switch' else NESTS[eng.choose('nest', 3)]
    rk = 'read_m' if mode == 'METADATA' else 'read_h'
    w = World(eng, [], fixed={'in': 'D', 'in/x': 'F', 'o': 'D'}, sandbox=getattr(eng, 'sandbox', None))
    w.distinct_mtimes = False
    w.env.chunked = chunked
    try:
        if fam == 'input':
            target, watch = 'r', w.p('in/x')
            body = _wrap(nest, ('SB', 's', {}, [('Q', rk, 'in/x')]))
        elif fam == 'twice':
            watch = w.p('in/x')
            k1 = TWICE_KINDS[eng.choose('k1', len(TWICE_KINDS))]
            k2 = TWICE_KINDS[eng.choose('k2', len(TWICE_KINDS))]
            modes2 = sorted({KIND_MODE[k1], KIND_MODE[k2]})
            body = _wrap(nest, ('SB', 's', {}, [('Q', k1, 'in/x'), ('Q', k2, 'in/x')]))
        elif fam == 'integrity-switch':
            watch = w.p('o/f')
            modes_seq = [MODES[eng.choose('m%d' % i_, 2)] for i_ in range(P['builds'])]
            eng.path_info['modes'] = modes_seq
            bodies_seq = [_wrap(nest, ('BF', 'o/f', {'mode': 'ok', 'cmp': m_, 'name': 'writer'}, [])) for m_ in modes_seq]
            body = bodies_seq[0]
        elif fam == 'integrity':
            watch = w.p('o/f')
            if P.get('sibling'):
                sib = P['sibling'][eng.choose('sib', len(P['sibling']))]
                smode = MODES[eng.choose('smode', 2)]
                body = _wrap(nest, ('BF', sib, {'mode': 'ok', 'cmp': smode}, []), [('BF', 'o/f', {'mode': 'ok', 'cmp': mode}, [])])
            else:
                body = _wrap(nest, ('BF', 'o/f', {'mode': 'ok', 'cmp': mode}, []))
        else:
            wmode = MODES[eng.choose('wmode', 2)]
            watch = w.p('o/f')
            body = _wrap(nest, ('BF', 'o/f', {'mode': 'ok', 'cmp': wmode, 'copy': 'in/x'}, []),
                         [('SB', 's', {}, [('Q', rk, 'o/f')])])
        shared = {}
        prog = Program(eng, body, shared)
        progs_seq = [Program(eng, b_, shared) for b_ in bodies_seq] if fam == 'integrity-switch' else None
        eng.path_info['program'] = show(body)
        eng.path_info['mode'] = mode
        # the function whose re-execution is observed
        sid = [f[0] for f in prog.functions if (f[1] == 'SB' and f[2] == 's') or (fam.startswith('integrity') and f[2] == 'o/f')][0]
        d = Driver(eng, w)
        impl, ref = d.build(progs_seq[0] if progs_seq else prog)
        eng.check('C13.first-build-ok', impl[0] == 'ok', (fam,), info={'impl': repr(impl[1])[:200]})
        for i in range(P['builds'] - 1):
            old = _meta(w, watch)
            if P.get('chmod'):
                # only the permission bits of the watched file change (size, mtime_ns and content stay): no mode may react
                w.ext_chmod(watch, [0o600, 0o755, 0o444][eng.choose('perm', 3)])
            elif fam == 'readback' and not P.get('tamper'):
                p = w.p('in/x')
                w.ext_write(p, eng.fresh_int('xcid'), fresh_mtime(eng, w, p))
            else:
                w.ext_write(watch, eng.fresh_int('xcid'), fresh_mtime(eng, w, watch))
            new_before = _meta(w, watch)
            if progs_seq:
                # the mode that judges the change is the one the previous build asked for (and recorded)
                mode = modes_seq[i]
            impl, ref = d.build(progs_seq[i + 1] if progs_seq else prog)
            eng.check('C13.build-ok', impl[0] == 'ok', (fam,), info={'impl': repr(impl[1])[:200]})
            new = _meta(w, watch) if fam == 'readback' else new_before
            re = sid in d.impl_calls
            must = changed(eng, mode, old, new)
            if fam == 'twice':
                # declared under both modes: a change visible to either of them counts
                must = L.or_(*[changed(eng, m_, old, new) for m_ in modes2])
            if progs_seq and impl[0] == 'ok':
                # after this build the watched file is what the build left (rewritten or kept)
                pass
            eng.check('C13.%s' % fam, must if re else L.not_(must), (fam, mode, nest, 'reexecuted' if re else 'reused'),
                      info={'program': show(body), 'mode': mode, 'reexecuted': re})
            eng.witness('reexecuted' if re else 'not-reexecuted')
            if fam == 'readback' and impl[0] == 'ok' and mode == 'HASH':
                # the value seen by the reader is the current content
                eng.check('C13.readback-value', L.eq(_find_read(impl[1]), new[0]), (fam, mode, nest, 'value'))
        if chunked and w.env.real is False and w.env.chunk_sizes:
            eng.witness('chunked-read')
        eng.sample({'family': fam, 'mode': mode, 'nest': nest, 'program': show(body)})
    finally:
        w.close()


def _find_read(v):
    """last leaf of the value = what s read"""
    while isinstance(v, list):
        v = v[-1]
    return v

"""Generic history harness: steps B (build), F (build with a symbolic crash
point), M (external mutation), C (clean), on skeleton programs.  Property
specific assertion groups are switched on by the caller (C03, C12)."""
import posixpath

from symx import logic as L
from symx.fs import FILE, DIR, ABSENT
from .world import World
from .program import Program, show
from .common import Driver
from .skeletons import skeleton, U7
from .mutate import mutate
from .c02 import pick_crash

U_C = ['c'] + U7          # the cache lives in c/cache: the build may have to create c


def _managed(w, d, prog):
    """Paths the API call may touch: cache file, targets of this build, outputs
    recorded by the previous committed build."""
    m = {w.cache}
    if prog is not None:
        m.update(w.p(t) for t in prog.outputs())
    if w.ref.kind(w.cache) == FILE:
        m.update(d.state.outputs)
    return m


def _in_tmp(w, p):
    return any(p == t or p.startswith(t + '/') for t in w.fs.tmpdirs)


class ForeignMonitor:
    """C03: snapshot of everything outside the managed set before an API call,
    compared afterwards; plus an allow-list over the library's mutating calls."""

    def __init__(self, eng, w, d, prog, sig):
        self.eng, self.w, self.d, self.sig = eng, w, d, tuple(sig)
        self.managed = _managed(w, d, prog)
        self.pre = w.fs.snapshot(w.root)
        self.prev_created = set(d.state.created_dirs) if w.ref.kind(w.cache) == FILE else set()
        self.prev_outputs = set(d.state.outputs) if w.ref.kind(w.cache) == FILE else set()
        self.log = []
        w.env.log = self.log

    def finish(self, what):
        eng, w = self.eng, self.w
        w.env.log = None
        post = w.fs.snapshot(w.root)
        conds = []
        for p, s in self.pre.items():
            q = post.get(p)
            if s[0] == 'F':
                if p in self.managed:
                    if what == 'build-raised' and p != w.cache and p not in self.prev_outputs:
                        # a foreign file at a target path, overwritten by a build that was rolled back: it is back
                        if q is None or q[0] != 'F':
                            eng.check('C03.overwritten-foreign-file-not-restored', False, self.sig + (what, _role(w, p)),
                                      info={'path': w.rel(p), 'after': q and q[0]})
                        else:
                            conds.append(L.eq(s[2], q[2]))
                            conds.append(L.eq(s[3], q[3]))
                    continue
                if q is None or q[0] != 'F':
                    eng.check('C03.foreign-file-gone', False, self.sig + (what, _role(w, p)),
                              info={'path': w.rel(p), 'after': q and q[0]})
                else:
                    eng.check('C03.foreign-file-inode', s[1] == q[1], self.sig + (what, _role(w, p)),
                              info={'path': w.rel(p)})
                    conds.append(L.eq(s[2], q[2]))
                    conds.append(L.eq(s[3], q[3]))
            else:
                if q is None or q[0] != 'D':
                    eng.check('C03.foreign-dir-removed', p in self.prev_created, self.sig + (what, _role(w, p)),
                              info={'path': w.rel(p), 'after': q and q[0]})
        eng.check('C03.foreign-bytes-mtime', L.and_(*conds), self.sig + (what,))
        # allow-list over the library's own mutating calls
        made = set()
        for call in self.log:
            op = call[0]
            if op in ('mkdir', 'makedirs'):
                made.add(call[1])
            elif op == 'rmtree':
                eng.check('C03.call-rmtree', _in_tmp(w, call[1]), self.sig + (what, 'rmtree'), info={'call': call})
            elif op == 'rmdir':
                p = call[1]
                ok = p in self.prev_created or p in made or _in_tmp(w, p) or self.pre.get(p) is None
                eng.check('C03.call-rmdir', ok, self.sig + (what, 'rmdir', _role(w, p)), info={'call': call})
            elif op == 'remove':
                p = call[1]
                ok = p in self.managed or _in_tmp(w, p) or self.pre.get(p) is None
                eng.check('C03.call-remove', ok, self.sig + (what, 'remove', _role(w, p)), info={'call': call})
            elif op in ('rename', 'replace'):
                a, b = call[1], call[2]
                ok = (a in self.managed or _in_tmp(w, a) or self.pre.get(a) is None) and \
                     (b in self.managed or _in_tmp(w, b) or self.pre.get(b) is None or a == b)
                eng.check('C03.call-rename', ok, self.sig + (what, op, _role(w, a), _role(w, b)), info={'call': call})
            elif op in ('open-w', 'gzip-w'):
                eng.check('C03.call-write', call[1] == w.cache or _in_tmp(w, call[1]), self.sig + (what, op),
                          info={'call': call})
        eng.check('C03.temp-dir-left', not w.tmp_leftovers(), self.sig + (what,))


def _mid_build_plant(eng, w, mon, P, si):
    """A foreign file appears while the build is running (between two API calls of the user program, at one of the
    program's probe points): the point is a hole, the path comes from P['plant_paths'].  The same event is replayed at the
    same point of the reference run.  The planted file joins the monitor's baseline."""
    rel = P['plant_paths'][eng.choose('plantp%d' % si, len(P['plant_paths']))]
    p = w.p(rel)
    cid, mt = eng.fresh_int('plantcid%d' % si), eng.fresh_int('plantmt%d' % si, 0, 2 ** 62)
    st = {'where': None, 'n': 0}

    def probe(which, b, where):
        if which == 'impl':
            st['n'] += 1
            if st['where'] is not None or st['n'] > P.get('plant_events', 8):
                return
            as_dir = bool(P.get('plant_dirs'))
            if p in mon.managed and not as_dir:
                return                          # a file at a target path may legitimately be overwritten
            if not w.fs.is_kind(posixpath.dirname(p), DIR) or not w.fs.is_kind(p, ABSENT):
                return
            if eng.choose('plant-here', 2) == 0:
                return
            st['where'] = where
            st['dir'] = as_dir
            if st['dir']:
                w.fs.add_dir(p)             # an empty foreign directory (a directory is never the library's to remove,
                                            # not even at a target path)
            else:
                w.fs.add_file(p, cid, mt)
            mon.pre[p] = w.fs.snapshot(w.root)[p]
            eng.path_info['planted'] = [rel, where]
            eng.witness('planted-during-build')
        elif where == st['where'] and w.ref.is_kind(posixpath.dirname(p), DIR) and w.ref.is_kind(p, ABSENT):
            if st.get('dir'):
                w.ref.add_dir(p)
            else:
                w.ref.add_file(p, cid, mt)
    return probe


def _role(w, p):
    if p.startswith(w.root + '/'):
        return w.rel(p)
    return 'tmp' if _in_tmp(w, p) else 'outside'


def run_history(eng, fam, P, prop):
    bodies = skeleton(eng, fam, P)
    shared = {}
    progs = [Program(eng, b, shared) for b in bodies]
    eng.path_info['program'] = ' || '.join(show(b) for b in bodies)
    cache_rel = P.get('cache', 'cache')
    w = World(eng, P.get('universe', U7), cache_rel=cache_rel, sandbox=getattr(eng, 'sandbox', None))
    hist = P['hist']
    try:
        d = Driver(eng, w)
        d.cache_spellings = bool(P.get('cache_spellings'))
        nb = 0
        desc = []
        cleaned_at = None
        for si, step in enumerate(hist):
            prog = progs[min(nb, len(progs) - 1)]
            sig = (fam, hist, 'step%d' % si)
            mon = None
            if step in 'BFC' and prop == 'C03':
                mon = ForeignMonitor(eng, w, d, prog if step != 'C' else None, (fam, hist))
            if step == 'B' or step == 'F':
                nb += 1
                crash = pick_crash(eng, prog) if step == 'F' else None
                probe = None
                if P.get('midplant') and prop == 'C03' and nb >= 2:
                    probe = _mid_build_plant(eng, w, mon, P, si)
                impl, ref = d.build(prog, crash=crash, probe=probe)
                if mon is not None:
                    mon.finish('build-ok' if impl[0] == 'ok' else 'build-raised')
                    mon = None
                d.guard_same()
                desc.append('%s->%s' % (step, impl[0]))
                if impl[0] == 'exc':
                    eng.witness('build-raised')
                if cleaned_at is not None and prop == 'C12':
                    # a build after clean behaves like a first build: everything is executed
                    eng.check('C12.build-after-clean-runs-everything', d.impl_calls == d.ref_calls, sig,
                              info={'impl': d.impl_calls, 'ref': d.ref_calls})
                    eng.witness('build-after-clean')
                    cleaned_at = None
            elif step == 'M':
                m = mutate(eng, w, str(si), P.get('mut_kinds', ['none', 'delete', 'write', 'mkdir', 'rmtree', 'file2dir', 'dir2file']),
                           P.get('mut_paths', ['o', 'o/d', 'o/d/g', 'o/z', 'o/d/z']))
                desc.append('M%s' % (m,))
            elif step == 'C':
                had_cache = w.fs.kind(w.cache) != ABSENT
                before = w.fs.snapshot(w.root)
                impl, _ = d.clean()
                if mon is not None:
                    mon.finish('clean')
                    mon = None
                if prop == 'C12':
                    eng.check(prop + '.clean-ok', impl[0] == 'ok', sig, info={'exc': repr(impl[1])})
                    a, b = d.check_tree(prop + '.clean', sig)
                elif impl[0] != 'ok' or not d.trees_equal():
                    eng.note('guard:diverged-from-reference-in-clean')
                    return
                eng.witness('clean-with-cache' if had_cache else 'clean-without-cache')
                if prop == 'C12':
                    eng.check('C12.cache-file-removed', w.fs.kind(w.cache) == ABSENT, sig)
                    if not had_cache:
                        after = w.fs.snapshot(w.root)
                        same = set(after) == set(before) and all(after[p][:2] == before[p][:2] for p in after)
                        eng.check('C12.clean-without-cache-is-noop', same, sig)
                    # clean twice = clean once
                    t1 = w.fs.snapshot(w.root)
                    impl2, _ = d.clean()
                    t2 = w.fs.snapshot(w.root)
                    eng.check('C12.clean-idempotent', impl2[0] == 'ok' and set(t1) == set(t2) and
                              all(t1[p][:2] == t2[p][:2] for p in t1), sig)
                cleaned_at = si
                desc.append('CL')
        eng.sample({'family': fam, 'program': eng.path_info['program'], 'history': desc})
    finally:
        w.close()

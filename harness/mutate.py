"""External mutations between API calls (the documented obligation), applied
to the implementation tree and the reference tree alike.  Kind and path are
symbolic holes."""
import posixpath

from symx.common import PathAbort
from symx.fs import ABSENT, FILE, DIR
from symx import logic as L

MUTATIONS = ('none', 'delete', 'write', 'touch', 'mkdir', 'rmtree', 'file2dir', 'dir2file')


def fresh_mtime(eng, w, path):
    """mtime of a new write: distinct from every earlier mtime of that path
    (writes are metadata-visible; the other case is C13's subject)."""
    seen = w.__dict__.setdefault('mtimes_seen', {})
    mt = eng.fresh_int('xmt', 0, 2 ** 62)
    if not getattr(w, 'distinct_mtimes', True):
        return mt
    lst = seen.setdefault(path, [])
    rel = w.rel(path)
    if rel in w.vars and not lst:
        lst.append(w.vars[rel][2])
    for old in lst:
        eng.constrain(L.not_(mt == old))
    lst.append(mt)
    return mt


def mutate(eng, w, tag, kinds, paths):
    """Apply one symbolic mutation: the path is a hole, then the mutation is
    chosen among the kinds applicable to what is at that path."""
    if 'none' in kinds and eng.choose('mutnone' + tag, 2) == 0:
        return ('none', None)
    rel = paths[eng.choose('mp' + tag, len(paths))]
    p = w.p(rel)
    fs = w.fs
    k = fs.kind(p)
    pk = fs.kind(posixpath.dirname(p))
    if k == FILE:
        app = ['delete', 'write', 'touch', 'file2dir']
    elif k == DIR:
        app = (['rmtree', 'dir2file'] if fs.children(p) else ['delete', 'dir2file'])
    else:
        app = ['write', 'mkdir'] if pk == DIR else []
    app = [m for m in app if m in kinds]
    if not app:
        raise PathAbort()
    m = app[eng.choose('mut' + tag, len(app))]
    if m == 'delete':
        if k == DIR:
            w.ext_rmdir(p)
        else:
            w.ext_remove(p)
    elif m == 'rmtree':
        w.ext_rmtree(p)
    elif m == 'write':
        w.ext_write(p, eng.fresh_int('xcid'), fresh_mtime(eng, w, p))
    elif m == 'touch':
        w.ext_touch(p, fresh_mtime(eng, w, p))
    elif m == 'mkdir':
        w.ext_mkdir(p)
    elif m == 'file2dir':
        w.ext_remove(p)
        w.ext_mkdir(p)
    elif m == 'dir2file':
        w.ext_rmtree(p)
        w.ext_write(p, eng.fresh_int('xcid'), fresh_mtime(eng, w, p))
    return (m, rel)

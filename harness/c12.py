"""C12 clean removes exactly what the last build created."""
from .hist import run_history, U_C
from .skeletons import UN3

LEVEL = 'model_checking'
BUDGET_S = {'quick': 280, 'thorough': 1200}
BOUNDS = {
    'quick': 'universe U7 + c (cache at c/cache, or two levels deep at c/s/cache, so the build may create the cache directories); clean after commits, after '
             'rollbacks, after external tampering (files put into created directories, outputs deleted/modified, swaps), '
             'after a previous clean and without a cache; then a build that must run everything',
    'thorough': 'wider holes, skeleton set B, 5-step histories',
}
ASSUMPTIONS = []
WITNESSES = {'quick': ['clean-with-cache', 'clean-without-cache', 'build-after-clean'], 'thorough': ['clean-with-cache']}


def families(tier):
    mp = ['o', 'o/d', 'o/d/g', 'o/z', 'o/d/z', 'c/z']
    base = {'cache': 'c/cache', 'universe': U_C}
    q = [
        {'name': 'A5b', 'params': dict(base, hist='BMCB', modes=['ok'], mut_paths=['o/d', 'o/d/z', 'c/z']), 'weight': 4},
        {'name': 'A5a', 'params': dict(base, hist='BMC', modes=['ok'], mut_paths=['o', 'o/d/g', 'o/z']), 'weight': 2},
        {'name': 'A3', 'params': dict(base, hist='BFC', kinds=['is_file'], roles=['in/x'], targets=['o/d/g'], modes=['ok']), 'weight': 1},
        {'name': 'A3', 'params': dict(base, hist='CB', kinds=['is_file'], roles=['in/x'], targets=['o/d/g'], modes=['ok'], cache_spellings=True), 'weight': 1},
        {'name': 'A3', 'params': dict(base, hist='BC', kinds=['is_file'], roles=['in/x'], targets=['o/d/g'], modes=['ok'], cache_spellings=True), 'weight': 1},
        {'name': 'A8', 'params': dict(base, hist='BBCB', kinds=['is_dir']), 'weight': 1},
        {'name': 'A4', 'params': dict(base, hist='BMC', kinds=['is_dir'], roles=['o'], targets=['o/d/g'],
                                      modes=['ok', 'raise_after'], mut_paths=mp), 'weight': 2},
    ]
    # the cache file two created levels deep (c/s/cache), outputs elsewhere or next to it
    deep = {'cache': 'c/s/cache', 'universe': ['c', 'c/s', 'o', 'o/d', 'o/d/g', 'in', 'in/x']}
    q.append({'name': 'A3', 'params': dict(deep, hist='BC', kinds=['is_file'], roles=['in/x'], targets=['o/d/g', 'c/t', 'c/s/t'], modes=['ok']), 'weight': 1})
    q.append({'name': 'A3', 'params': dict(deep, hist='BBC', kinds=['is_file'], roles=['in/x'], targets=['o/d/g', 'c/t'], modes=['ok']), 'weight': 1})
    # part of what the previous build created is removed by hand, the next build recreates it, then clean
    q.append({'name': 'A3', 'params': dict(base, hist='BMBC', kinds=['is_file'], roles=['in/x'], targets=['o/d/g'], modes=['ok'],
                                           mut_paths=['o/d', 'o/d/g', 'o'], mut_kinds=['rmtree', 'delete']), 'weight': 1})
    # an output is no longer produced (and may have been deleted by hand while its directories stayed)
    q.append({'name': 'A10', 'params': dict(base, hist='BMBC', kinds=['is_dir'], mut_paths=['o/d/g', 'o/d', 'o/f'], mut_kinds=['none', 'delete', 'rmtree']), 'weight': 1})
    q.append({'name': 'P2', 'params': dict(base, hist='BBC', universe=['c', 'o', 'o/d', 'o/dx']), 'weight': 1})
    q.append({'name': 'CD', 'params': dict(base, hist='BBC', universe=['c', 'c/x', 'c/sub']), 'weight': 1})
    q.append({'name': 'CD', 'params': dict(base, hist='BMBC', universe=['c', 'c/x', 'c/sub'], mut_paths=['c/x', 'c/sub', 'c/z']), 'weight': 1})
    q.append({'name': 'N3', 'params': dict(base, hist='BBC', universe=['c'] + UN3, kinds=['is_dir'], roles=['o']), 'weight': 3})
    if tier == 'quick':
        return q
    return q + [
        {'name': 'A5b', 'params': dict(base, hist='BMCB', modes=['ok', 'raise_before'], mut_paths=mp), 'weight': 5},
        {'name': 'A5a', 'params': dict(base, hist='BMC', modes=['ok', 'raise_after'], mut_paths=mp), 'weight': 4},
        {'name': 'A5b', 'params': dict(base, hist='BMBMC', modes=['ok', 'raise_before'], mut_paths=mp), 'weight': 5},
        {'name': 'A6', 'params': dict(base, hist='BMCB', kinds=['is_dir'], mut_paths=mp + ['o/x']), 'weight': 3},
        {'name': 'B3', 'params': dict(base, hist='BMCB', mut_paths=mp), 'weight': 3},
        {'name': 'A5a', 'params': dict(base, hist='BMFCB', modes=['ok'], mut_paths=mp), 'weight': 4},
    ]


def harness(eng, fam, P):
    run_history(eng, fam, P, 'C12')

"""JSON value templates with symbolic leaves, and an independent specification of
the JSON round trip and of JSON equality (used by C07, C16, C18)."""
from symx.common import is_sym, HarnessError
from symx import logic as L

KEYWORDS = ['true', 'false', 'null', 'NaN', 'Infinity', '-Infinity']
SPECIAL_FLOATS = [-0.0, 0.5, float('inf'), 1e300, 2.0 ** 63]
# concrete integers that no float represents exactly, and the floats they round to
BIG_INTS = [2 ** 53 + 1, 2 ** 63 + 1, -(2 ** 63) - 1, 10 ** 23]
BIG_FLOATS = [2.0 ** 53, 2.0 ** 63, -(2.0 ** 63), 1e23]
STR_LITS = ['', 'a', 'true', 'null', '\U0001F600']
LITERALS = KEYWORDS + STR_LITS + [repr(f) for f in SPECIAL_FLOATS + BIG_FLOATS] + ['-inf'] + [repr(i) for i in BIG_INTS]


class Bad:
    """A non-JSON leaf."""

    def __repr__(self):
        return 'Bad()'


class IntSub(int):
    pass


class StrSub(str):
    pass


def gen_str(eng, tag, lits=STR_LITS):
    opts = ['free', 'ofint'] + (['lit'] if lits else [])
    k = opts[eng.choose('sk' + tag, len(opts))]
    if k == 'free':
        return eng.fresh_str('s' + tag)
    if k == 'ofint':
        return eng.repr_int(eng.fresh_int('si' + tag))
    return eng.lit(lits[eng.choose('sl' + tag, len(lits))])


class Shape:
    """Bounds of a value template."""

    def __init__(self, leaf_kinds=None, key_kinds=None, specials=None, lits=None, containers=('list', 'tuple', 'dict')):
        self.leaf_kinds = list(leaf_kinds or LEAF_KINDS)
        self.key_kinds = list(key_kinds or KEY_KINDS)
        self.specials = list(SPECIAL_FLOATS if specials is None else specials)
        self.lits = list(STR_LITS if lits is None else lits)
        self.containers = tuple(containers)

    def describe(self):
        return {'leaves': self.leaf_kinds, 'keys': self.key_kinds, 'special_floats': [repr(x) for x in self.specials],
                'string_literals': self.lits, 'containers': list(self.containers)}


def gen_leaf(eng, tag, kinds, sh=None):
    sh = sh or Shape()
    k = kinds[eng.choose('lk' + tag, len(kinds))]
    if k == 'none':
        return None
    if k == 'bool':
        return eng.fresh_bool('b' + tag)
    if k == 'int':
        return eng.fresh_int('i' + tag)
    if k == 'float':
        return eng.fresh_float('f' + tag)
    if k == 'special':
        return eng.special_float(sh.specials[eng.choose('sf' + tag, len(sh.specials))])
    if k == 'bigint':
        return BIG_INTS[eng.choose('bi' + tag, len(BIG_INTS))]
    if k == 'str':
        return gen_str(eng, tag, sh.lits)
    if k == 'bad':
        return Bad()
    raise HarnessError(k)


LEAF_KINDS = ['none', 'bool', 'int', 'float', 'special', 'str']
KEY_KINDS = ['str', 'int', 'bool', 'none', 'float']
BAD_KEYS = [(1, 2), (), ('a',), b'k', frozenset()]
CONCRETE_KEYS = [0, 1, -1, 2 ** 53 + 1, True, False, 0.0, 1.0, -0.0, 0.5, float('inf'), 'true', '1', '1.0', 'null']


def gen_key(eng, tag, sh):
    kinds = sh.key_kinds
    k = kinds[eng.choose('kk' + tag, len(kinds))]
    if k == 'str':
        return gen_str(eng, 'k' + tag, sh.lits)
    if k == 'int':
        return eng.fresh_int('ki' + tag)
    if k == 'bool':
        return eng.fresh_bool('kb' + tag)
    if k == 'none':
        return None
    if k == 'badkey':
        # keys json refuses (TypeError), although their elements are JSON values
        return BAD_KEYS[eng.choose('kb' + tag, len(BAD_KEYS))]
    if k == 'concrete':
        # a plain Python key from the classes that collide in hash()/== (True == 1 == 1.0, False == 0 == -0.0) or sit next
        # to a JSON keyword: exact Python semantics, also against lookup tables the library may hold
        return CONCRETE_KEYS[eng.choose('kc' + tag, len(CONCRETE_KEYS))]
    if k == 'float':
        if sh.specials and eng.choose('kfs' + tag, 2):
            return eng.special_float(sh.specials[eng.choose('kf' + tag, len(sh.specials))])
        return eng.fresh_float('kf' + tag)
    raise HarnessError(k)


def gen_value(eng, tag, depth, width, sh=None, extra_leaves=()):
    sh = sh or Shape()
    opts = ['leaf'] + (list(sh.containers) if depth > 0 else [])
    k = opts[eng.choose('vk' + tag, len(opts))]
    if k == 'leaf':
        return gen_leaf(eng, tag, sh.leaf_kinds + list(extra_leaves), sh)
    n = eng.choose('w' + tag, width + 1)
    if k in ('list', 'tuple'):
        items = [gen_value(eng, '%s.%d' % (tag, i), depth - 1, width, sh, extra_leaves) for i in range(n)]
        return items if k == 'list' else tuple(items)
    d = {}
    for i in range(n):
        key = gen_key(eng, '%s.%d' % (tag, i), sh)
        val = gen_value(eng, '%s.%dv' % (tag, i), depth - 1, width, sh, extra_leaves)
        d[key] = val          # real dict semantics: a key equal to an earlier one replaces its value
    return d


# ---------------------------------------------------------------- specification
class Assoc:
    """Expected dict as an association list (independent of dict semantics)."""

    def __init__(self):
        self.items = []

    def put(self, k, v):
        for it in self.items:
            if bool(it[0] == k):
                it[1] = v
                return
        self.items.append([k, v])


def has_bad(v):
    if isinstance(v, Bad):
        return True
    if isinstance(v, (list, tuple)):
        return any(has_bad(x) for x in v)
    if isinstance(v, dict):
        return any(isinstance(k, (Bad, tuple, bytes, frozenset)) or has_bad(x) for k, x in v.items())
    return False


def spec_key(eng, k):
    c = k.__class__
    if c is str:
        return k
    if isinstance(k, str):
        return str(k)
    if c is bool:
        return eng.lit('true') if bool(k) else eng.lit('false')
    if k is None:
        return eng.lit('null')
    if c is int:
        return eng.repr_int(k)
    if c is float:
        if bool(k == float('inf')):
            return eng.lit('Infinity')
        if bool(k == -float('inf')):
            return eng.lit('-Infinity')
        return eng.repr_float(k)
    if isinstance(k, int):
        return eng.repr_int(int(k))
    raise TypeError('key')


def spec_roundtrip(eng, v):
    """json.loads(json.dumps(v)) written independently: tuples -> lists, keys
    stringified (later duplicates win), leaves of the base types."""
    if isinstance(v, (list, tuple)):
        return [spec_roundtrip(eng, x) for x in v]
    if isinstance(v, dict):
        a = Assoc()
        for k, x in v.items():
            a.put(spec_key(eng, k), spec_roundtrip(eng, x))
        return a
    if isinstance(v, IntSub):
        return int(v)
    if isinstance(v, StrSub):
        return str(v)
    return v


def same(r, e):
    """Does the real result r equal the expected structure e with exactly the
    same concrete types?  -> bool | SymBool"""
    if isinstance(e, list):
        if type(r) is not list or len(r) != len(e):
            return False
        return L.and_(*[same(x, y) for x, y in zip(r, e)])
    if isinstance(e, Assoc):
        if type(r) is not dict or len(r) != len(e.items):
            return False
        conds = []
        for k, val in e.items:
            found = None
            for rk, rv in r.items():
                if rk.__class__ is not str:
                    return False
                if bool(rk == k):
                    found = rv
                    break
            if found is None and not any(bool(rk == k) for rk in r):
                return False
            conds.append(same(found, val))
        return L.and_(*conds)
    if e is None or r is None:
        return e is r
    if r.__class__ is not e.__class__:
        return False
    if is_sym(r) or is_sym(e):
        return L.eq(r, e)
    if type(r) is not type(e):
        return False
    return (r == e) and (repr(r) == repr(e))     # distinguishes -0.0 from 0.0


def containers(v, out=None):
    out = [] if out is None else out
    if isinstance(v, (list, dict)):
        out.append(id(v))
    if isinstance(v, (list, tuple)):
        for x in v:
            containers(x, out)
    elif isinstance(v, dict):
        for x in v.values():
            containers(x, out)
    return out


def _items(d):
    return [(k, v) for k, v in d.items] if isinstance(d, Assoc) else list(d.items())


def spec_equal(a, b):
    """JSON equality of sanitised values (tuples allowed; dicts may be Assoc
    lists from spec_roundtrip) as a formula."""
    la, lb = isinstance(a, (list, tuple)), isinstance(b, (list, tuple))
    if la or lb:
        if not (la and lb) or len(a) != len(b):
            return False
        return L.and_(*[spec_equal(x, y) for x, y in zip(a, b)])
    da, db = isinstance(a, (dict, Assoc)), isinstance(b, (dict, Assoc))
    if da or db:
        if not (da and db):
            return False
        ia, ib = _items(a), _items(b)
        if len(ia) != len(ib):
            return False
        conds = []
        for ka, va in ia:
            conds.append(L.or_(*[L.and_(_key_eq(ka, kb), spec_equal(va, vb)) for kb, vb in ib]))
        return L.and_(*conds)
    if a is None or b is None:
        return a is b
    ca, cb = a.__class__, b.__class__
    if (ca is bool) != (cb is bool):
        return False
    if (ca is str) != (cb is str):
        return False
    r = (a == b)
    if r is NotImplemented:
        return False
    return r if is_sym(r) else bool(r)


def _key_eq(a, b):
    r = (a == b)
    if r is NotImplemented:
        return False
    return r if is_sym(r) else bool(r)


def tuplify(v):
    if isinstance(v, (list, tuple)):
        return tuple(tuplify(x) for x in v)
    if isinstance(v, dict):
        return {k: tuplify(x) for k, x in v.items()}
    return v


def concretise(v):
    """Plain-Python rendering of a value for evidence samples."""
    if isinstance(v, (list, tuple)):
        return [concretise(x) for x in v]
    if isinstance(v, dict):
        return {repr(k): concretise(x) for k, x in v.items()}
    return repr(v)

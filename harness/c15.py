"""C15 refused calls have no side effects: wrong argument types, wrong build
name, unreadable / foreign / newer cache file, cache path being a directory."""
import gzip as _gzip
import json as _json
import zlib

from symx import logic as L
from symx.fs import ABSENT, FILE, DIR
from symx.env import JsonDoc, jcopy
from .world import World
from .program import Program, show
from .common import Driver
from .skeletons import skeleton, U7
from .mutate import fresh_mtime

LEVEL = 'model_checking'
BUDGET_S = {'quick': 160, 'thorough': 600}
BOUNDS = {
    'quick': 'a committed build of a skeleton program (outputs, created directories, symbolic tree U7), then one refused call: '
             '{build, build_versioned, clean} x {wrong-typed argument in each slot, different build name, cache path is a '
             'directory, cache unreadable: EOFError / OSError / ValueError / zlib.error from gzip+json, document of class '
             'non-dict / no software / wrong software / cacheFileVersion not None (symbolic int) / missing key / right software and '
             'version but one field (createdDirs, rootOperations, funcVersions, operationVersions, buildName, first operation record) '
             'of the wrong JSON shape (null, number, string, nested list, object, absent)}; for a different build name and an unreadable cache '
             'also with the cache file named dir/no-such-dir/../cache and cache/ (unnormalised spellings the OS cannot resolve)',
    'thorough': 'the same on top of B.M.B histories (tampered outputs)',
}
ASSUMPTIONS = [
    'the mapping from corrupted bytes to the exception class happens inside zlib/gzip/json (C code): modelled as the outcome '
    'class of gzip.open+json.load; replays write real bytes of that class (truncated stream, non-gzip bytes, gzip of '
    'non-JSON text, corrupted deflate stream)',
]
WITNESSES = {'quick': ['refused', 'refused-clean', 'refused-unreadable-cache', 'refused-wrong-shape'], 'thorough': ['refused']}

READ_ERRORS = ['EOFError', 'OSError', 'ValueError', 'zlib.error']
DOC_CLASSES = ['non-dict', 'no-software', 'wrong-software', 'newer-version', 'missing-version-key']
TYPE_SLOTS = ['build_name', 'func', 'cache_filename', 'versions', 'versions-nonjson', 'clean-build_name', 'clean-cache_filename']


def families(tier):
    base = [
        {'name': 'types', 'params': {}, 'weight': 1},
        {'name': 'types', 'params': {'hist': 'BMB', 'slots': ['func', 'versions-nonjson', 'build_name', 'clean-build_name']}, 'weight': 1},
        {'name': 'name', 'params': {}, 'weight': 1},
        {'name': 'name', 'params': {'hist': 'BMB'}, 'weight': 1},
        {'name': 'cache-dir', 'params': {}, 'weight': 1},
        {'name': 'read-error', 'params': {}, 'weight': 2},
        {'name': 'doc-class', 'params': {}, 'weight': 2},
        {'name': 'doc-shape', 'params': {}, 'weight': 2},
        {'name': 'bytes', 'params': {}, 'weight': 2},
    ]
    if tier == 'thorough':
        base += [dict(f, params={'hist': 'BMB'}) for f in base]
    return base


def real_bytes_for(kind, doc):
    good = _gzip.compress(_json.dumps(doc, separators=(',', ':'), sort_keys=True).encode())
    if kind == 'EOFError':
        return good[:len(good) // 2]
    if kind == 'OSError':
        return b'this is not a gzip file at all'
    if kind == 'ValueError':
        return _gzip.compress(b'{"this is": not json')
    if kind == 'zlib.error':
        b = bytearray(good)
        for i in range(12, min(len(b) - 8, 40)):
            b[i] ^= 0xff
        return bytes(b)
    raise ValueError(kind)


def corrupt(eng, w, how, what):
    """Replace the cache file externally by one of class (how, what)."""
    cache = w.cache
    if w.real:
        with _gzip.open(cache, 'rt') as f:
            doc = _json.load(f)
        if how == 'read-error':
            data = real_bytes_for(what, doc)
        else:
            data = _gzip.compress(_json.dumps(mutate_doc(eng, doc, what)).encode())
        with open(cache, 'wb') as f:
            f.write(data)
        return
    node = w.fs.nodes[cache]
    doc = node.payload.payload if isinstance(node.payload, JsonDoc) else None
    n = w.fs.open_write(cache, cid=eng.fresh_int('ccid'), mtime=eng.fresh_int('cmt', 0, 2 ** 62))
    if how == 'read-error':
        exc = {'EOFError': EOFError, 'OSError': OSError, 'ValueError': ValueError, 'zlib.error': zlib.error}[what]

        def hook(stage, f):
            if stage == 'load':
                raise exc('model: corrupted cache file')
            return None
        w.env.gzip_read_hook = hook
    else:
        bad = mutate_doc(eng, jcopy(doc), what)
        d = JsonDoc('<json>')
        d.payload = bad
        n.payload = d


SHAPE_VALUES = {'null': None, 'int': 5, 'str': 'x', 'nested': [[1]], 'dict': {'a': 1}, 'absent': None, 'notype': None, 'nosub': None}
SHAPE_CLASSES = ['shape:%s:%s' % (k, b) for k in ('createdDirs', 'rootOperations', 'funcVersions', 'operationVersions', 'buildName')
                 for b in ('null', 'int', 'str', 'nested', 'dict', 'absent')] + ['shape:op:%s' % b for b in ('int', 'null', 'notype', 'nosub')]


def mutate_doc(eng, doc, what):
    if what == 'non-dict':
        return [doc]
    if what == 'no-software':
        doc.pop('software', None)
    elif what == 'wrong-software':
        doc['software'] = 'other_builder'
    elif what == 'newer-version':
        v = eng.fresh_int('newver')
        doc['cacheFileVersion'] = v
    elif what == 'missing-version-key':
        doc.pop('cacheFileVersion', None)
    elif what.startswith('shape:'):
        # valid gzip, valid JSON, right software and version, wrong shape of one field
        _, key, bad = what.split(':')
        val = SHAPE_VALUES[bad]
        if key == 'op':
            # the first root operation record itself
            ops = doc.get('rootOperations') or []
            if ops:
                if bad == 'notype':
                    ops[0].pop('type', None)
                elif bad == 'nosub':
                    ops[0]['suboperations'] = None
                else:
                    ops[0] = val
        elif bad == 'absent':
            doc.pop(key, None)
        else:
            doc[key] = val
    return doc


def identical(eng, w, pre, sig):
    post = w.fs.snapshot(w.root)
    conds = []
    for p in sorted(set(pre) | set(post)):
        a, b = pre.get(p), post.get(p)
        if a is None or b is None or a[0] != b[0] or a[1] != b[1]:
            eng.check('C15.tree-changed', False, sig + (w.rel(p) if p != w.cache else 'cache',
                                                        a[0] if a else '-', b[0] if b else '-'),
                      info={'path': w.rel(p), 'before': a and a[:2], 'after': b and b[:2]})
        elif a[0] == 'F':
            conds.append(L.eq(a[2], b[2]))
            conds.append(L.eq(a[3], b[3]))
    eng.check('C15.bytes-or-mtime-changed', L.and_(*conds), sig)
    eng.check('C15.temp-dir-left', not w.tmp_leftovers(), sig)


def bytes_corpus(eng, P):
    """Byte-level corruption classes of a real cache file, through the real gzip / zlib / json: truncation at every
    offset class (header, deflate body, each of the 8 trailer bytes), a flipped byte at every position, appended
    garbage.  Runs on the real OS (the symbolic stub abstracts from bytes); the corruption kind and position are holes,
    so every position is reached.  Validates the stub's outcome set: a corrupted file is refused or is a valid document."""
    import os
    import shutil
    import tempfile
    from file_builder import FileBuilder
    base = getattr(eng, 'sandbox', None)
    own = base is None
    if own:
        base = tempfile.mkdtemp(prefix='verif_c15_', dir=os.environ.get('VERIF_TMP') or None)
    old_tempdir = tempfile.tempdir
    try:
        root = os.path.join(base, 'b')
        os.makedirs(os.path.join(root, 'out'))
        # a private temp directory: other worker processes create file_builder_* directories in the shared one
        private_tmp = os.path.join(base, 'private_tmp')
        os.makedirs(private_tmp)
        tempfile.tempdir = private_tmp
        cache = os.path.join(root, 'cache')
        target = os.path.join(root, 'out', 'f')
        calls = []

        def bf(b, fn):
            calls.append('bf')
            with open(fn, 'w') as f:
                f.write('data')
            return [1, 'two', {'k': None}]

        def rootf(b):
            calls.append('root')
            return b.build_file(target, 'bf', bf)

        FileBuilder.build(cache, 'n', rootf)
        good = open(cache, 'rb').read()
        n = len(good)
        kind = ['truncate', 'flip', 'append'][eng.choose('ckind', 3)]
        if kind == 'truncate':
            # every cut of the last 24 bytes (trailer and end of the deflate stream), then classes of earlier offsets
            k = eng.choose('off', 33)
            off = n - 24 + k if k < 24 else [0, 1, 2, 5, 10, 11, n // 4, n // 2, 3 * n // 4][k - 24]
            data = good[:off]
        elif kind == 'flip':
            k = eng.choose('off', 80)           # 64 evenly spaced positions and each of the last 16 bytes
            off = (k * n) // 64 if k < 64 else n - 16 + (k - 64)
            data = good[:off] + bytes([good[off] ^ 0x5a]) + good[off + 1:]
        else:
            off = eng.choose('off', 3)
            data = good + [b'x', b'\x00' * 8, good][off]
        with open(cache, 'wb') as f:
            f.write(data)
        eng.path_info.update({'corruption': kind, 'offset': off, 'cache_bytes': n})
        api = ['build', 'clean'][eng.choose('api', 2)]

        def snap():
            out = {}
            for d, sd, fl in os.walk(root):
                for x in sd:
                    out[os.path.join(d, x)] = 'D'
                for x in fl:
                    p = os.path.join(d, x)
                    st = os.stat(p)
                    out[p] = (st.st_ino, st.st_mtime_ns, open(p, 'rb').read())
            return out

        pre = snap()
        tmpbefore = set(os.listdir(private_tmp))
        del calls[:]
        try:
            if api == 'build':
                FileBuilder.build(cache, 'n', rootf)
            else:
                FileBuilder.clean(cache, 'n')
            refused = False
        except Exception as e:
            refused = True
        sig = ('bytes', api, kind)
        if not refused:
            # accepted: only legitimate if the bytes still are a complete, valid gzip stream of the same document
            import gzip as g
            import json as j
            try:
                ok = j.loads(g.decompress(data).decode()) == j.loads(g.decompress(good).decode())
            except Exception:
                ok = False
            eng.check('C15.corrupted-cache-accepted', ok, sig + ('off-class:%s' % ('trailer' if off >= n - 8 else 'body'),),
                      info={'corruption': kind, 'offset': off, 'of': n, 'api': api})
            return
        eng.witness('refused')
        eng.witness('refused-unreadable-cache')
        if api == 'clean':
            eng.witness('refused-clean')
        eng.check('C15.user-function-called', not calls, sig)
        post = snap()
        eng.check('C15.tree-changed', pre == post, sig, info={'corruption': kind, 'offset': off})
        left = [x for x in set(os.listdir(private_tmp)) - tmpbefore if x.startswith('file_builder_')]
        eng.check('C15.temp-dir-left', not left, sig)
        eng.sample({'family': 'bytes', 'corruption': kind, 'offset': off, 'cache_bytes': n, 'api': api, 'refused': refused})
    finally:
        tempfile.tempdir = old_tempdir
        if own:
            shutil.rmtree(base, ignore_errors=True)


def harness(eng, fam, P):
    if fam == 'bytes':
        return bytes_corpus(eng, P)
    from file_builder import FileBuilder
    bodies = skeleton(eng, 'A5b', {'modes': ['ok'], 'hist': 'B'}) if not P.get('hist') else [[('BF', 'o/d/g', {'mode': 'ok'}, [])]]
    prog = Program(eng, bodies[0])
    w = World(eng, U7, sandbox=getattr(eng, 'sandbox', None))
    eng.path_info['program'] = show(bodies[0])
    try:
        d = Driver(eng, w)
        impl, ref = d.build(prog)
        d.guard_same('prefix')
        if impl[0] != 'ok':
            eng.note('prefix-build-failed')
            return
        if P.get('hist') == 'BMB':
            from .mutate import mutate
            mutate(eng, w, 'm', ['delete', 'write', 'mkdir', 'rmtree'], ['o', 'o/d', 'o/d/g', 'o/f', 'o/z'])
        invoked = []

        def func(b, *a, **k):
            invoked.append(1)
            return 0

        api = ['build', 'build_versioned', 'clean'][eng.choose('api', 3)]
        cache, name, versions, fn = w.cache, 'n', {}, func
        what = None
        if fam == 'types':
            slots = P.get('slots', TYPE_SLOTS)
            slot = slots[eng.choose('slot', len(slots))]
            what = slot
            if slot.startswith('clean'):
                api = 'clean'
            elif api == 'clean':
                api = 'build'
            if slot in ('versions', 'versions-nonjson'):
                api = 'build_versioned'
            if slot.endswith('build_name'):
                # not a string (falsy values included: they must not be mistaken for "unknown build name")
                name = [5, 0, False, b'', [], {}, 0.0][eng.choose('badname', 7)]
                what = '%s=%r' % (slot, name)
            elif slot == 'func':
                # not callable (falsy values included)
                fn = ['not callable', None, 0, ''][eng.choose('badfunc', 4)]
                what = 'func=%r' % (fn,)
            elif slot.endswith('cache_filename'):
                cache = 3.5
            elif slot == 'versions':
                # not a dict (empty containers included: they must not be mistaken for "no versions")
                versions = [[('f', 1)], [], (), '', set(), 0, None][eng.choose('badversions', 7)]
                what = 'versions=%r' % (versions,)
            elif slot == 'versions-nonjson':
                versions = {'f': object()}
        elif fam == 'name':
            name = ['another-build', '', 'N'][eng.choose('othername', 3)]
            what = 'name=%r' % name
        elif fam == 'cache-dir':
            w.ext_remove(w.cache)
            w.ext_mkdir(w.cache)
            what = 'cache-dir'
        elif fam == 'read-error':
            what = READ_ERRORS[eng.choose('err', len(READ_ERRORS))]
            corrupt(eng, w, 'read-error', what)
        elif fam == 'doc-shape':
            what = SHAPE_CLASSES[eng.choose('shape', len(SHAPE_CLASSES))]
            corrupt(eng, w, 'doc', what)
        else:
            what = DOC_CLASSES[eng.choose('doc', len(DOC_CLASSES))]
            corrupt(eng, w, 'doc', what)
        if fam in ('name', 'read-error') and isinstance(cache, str):
            # the same cache file under an unnormalised spelling the OS itself cannot resolve (a missing directory followed
            # by '..', a trailing separator): the library works on the absolute normalised path
            import posixpath as _pp
            cs = eng.choose('cache-spelling', 3)
            cache = [cache, _pp.dirname(cache) + '/no-such-dir/../' + _pp.basename(cache), cache + '/'][cs]
            what = '%s cache-spelling=%s' % (what, ['plain', 'missing-dotdot', 'trailing-separator'][cs])
        eng.path_info.update({'api': api, 'case': what})
        pre = w.fs.snapshot(w.root)
        try:
            if api == 'build':
                FileBuilder.build(cache, name, fn)
            elif api == 'build_versioned':
                FileBuilder.build_versioned(cache, name, versions, fn)
            else:
                FileBuilder.clean(cache, name)
            out = ('returned', None)
        except Exception as e:
            out = ('raised', type(e).__name__)
        sig = (fam, api, str(what))
        if fam == 'cache-dir' and api == 'clean':
            # clean on a directory path: refused as well (IsADirectoryError from reading it)
            pass
        if out[0] == 'returned' and fam == 'doc-shape':
            # a wrong shape the reader happens to tolerate (e.g. a string where a list of strings is expected) is not a
            # refusal: nothing to assert
            eng.note('shape-tolerated')
            return
        if out[0] == 'returned':
            # not a refusal in this configuration: nothing to assert (e.g. clean with build_name None)
            eng.check('C15.not-refused', False, sig, info={'api': api, 'case': what})
        eng.witness('refused')
        if api == 'clean':
            eng.witness('refused-clean')
        if fam == 'doc-shape':
            eng.witness('refused-wrong-shape')
        if fam in ('read-error', 'doc-class'):
            eng.witness('refused-unreadable-cache')
        eng.check('C15.user-function-called', not invoked, sig)
        identical(eng, w, pre, sig + (out[1],))
        eng.sample({'family': fam, 'api': api, 'case': what, 'exception': out[1], 'program': show(bodies[0])})
    finally:
        w.env.gzip_read_hook = None if not w.real else None
        w.close()

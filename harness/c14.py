"""C14 internal OS errors surface as exceptions and never leave half-done state:
one injected OSError at a symbolic position among the library's own mutating
system calls of a build."""
import errno

from symx import logic as L
from symx.common import PathAbort
from symx.fs import FILE
from .world import World
from .program import Program, show
from .common import Driver, exc_name
from .skeletons import skeleton, U7, UN3
from .mutate import mutate
from .c02 import check_rollback

LEVEL = 'fault_enumeration'
BUDGET_S = {'quick': 220, 'thorough': 1500}
FAULT_OPS = ('mkdir', 'makedirs', 'rename', 'replace', 'gzip-w', 'gzip-data', 'rmdir')
BOUNDS = {
    'quick': 'universe U7; skeleton families A3, A4, A5a, A5b, A8 (swap), A9 (function lists its own output directory, then reads an input that changed), N3 with success / caught failure modes; histories X, B.X, '
             'B.M.X then one more build; in build X one OSError(EIO) at the j-th call among the library\'s mkdir / makedirs / '
             'rename / replace / rmdir (inside a call) / open-for-write of the cache, j symbolic (every position reached through feasibility queries); '
             'user code catches it or not (catch hole of the skeleton)',
    'thorough': 'wider holes and two-mutation prefixes',
}
ASSUMPTIONS = [
    'faults inside commit / rollback / error handling (remove, rmtree, and rmdir outside a build_file / subbuild call) are outside the property and not injected; rmdir inside a call (making room for an output) is injected',
    'reference for a caught fault: the API call in progress fails in setup with OSError and has no effect at all',
]
WITNESSES = {'quick': ['fault-propagated-rollback', 'fault-caught-build-continued', 'fault-in-cache-write', 'fault-in-backup'],
             'thorough': ['fault-propagated-rollback', 'fault-caught-build-continued']}


def families(tier):
    mp = ['o', 'o/d', 'o/d/g', 'o/f']
    q = [
        {'name': 'A3', 'params': {'hist': 'X', 'kinds': ['is_dir'], 'roles': ['o'], 'targets': ['o/d/g'], 'modes': ['ok', 'raise_after']}, 'weight': 1},
        {'name': 'A3', 'params': {'hist': 'BMX', 'kinds': ['is_dir'], 'roles': ['o'], 'targets': ['o/d/g'], 'modes': ['ok'], 'mut_paths': mp}, 'weight': 3},
        {'name': 'A5b', 'params': {'hist': 'BMX', 'modes': ['ok'], 'mut_paths': ['o/d', 'o/d/g', 'o/f'], 'catch': True}, 'weight': 3},
        {'name': 'A5a', 'params': {'hist': 'BX', 'modes': ['ok', 'raise_after'], 'catch': True}, 'weight': 2},
        # nested outputs whose old versions were tampered with: the inner call moves its old output aside (rename) in a directory
        # the outer call already holds
        {'name': 'A5a', 'params': {'hist': 'BMX', 'modes': ['ok'], 'catch': True, 'mut_paths': ['o/x', 'o/f', 'o/d/g'],
                                   'mut_kinds': ['write']}, 'weight': 2},
        {'name': 'A4', 'params': {'hist': 'BMX', 'kinds': ['is_dir', 'list_dir'], 'roles': ['o'], 'targets': ['o/d/g'], 'modes': ['ok'],
                                  'mut_paths': ['o/d', 'o/d/g']}, 'weight': 2},
        {'name': 'A8', 'params': {'hist': 'BX', 'kinds': ['is_dir']}, 'weight': 2},
        {'name': 'A8d', 'params': {'hist': 'BX', 'kinds': ['is_dir'], 'universe': ['o', 'o/z']}, 'weight': 1},
        # three and four new directory levels below the output root: a fault at the deeper mkdirs
        {'name': 'A3', 'params': {'hist': 'X', 'kinds': ['is_dir'], 'roles': ['o'], 'targets': ['o/d/e/h', 'o/d/e/i/j'], 'modes': ['ok'],
                                  'universe': ['o', 'o/d']}, 'weight': 1},
        {'name': 'A9', 'params': {'hist': 'BMX', 'kinds': ['is_dir', 'list_dir'], 'targets': ['o/d/g'], 'modes': ['ok'],
                                  'mut_paths': ['in/x'], 'mut_kinds': ['none', 'write']}, 'weight': 2},
        {'name': 'N3', 'params': {'hist': 'BMX', 'universe': UN3, 'kinds': ['is_dir'], 'roles': ['o'], 'bf_modes': ['ok'], 'sb_modes': ['ok'],
                                  'mut_paths': ['o/d', 'o/m', 'o/w'], 'mut_kinds': ['none', 'delete', 'rmtree']}, 'weight': 3},
    ]
    if tier == 'quick':
        return q
    return q + [
        {'name': 'A5b', 'params': {'hist': 'BMX', 'modes': ['ok', 'raise_before'], 'mut_paths': mp + ['o/z']}, 'weight': 5},
        {'name': 'A6', 'params': {'hist': 'BMX', 'kinds': ['is_dir'], 'mut_paths': mp}, 'weight': 4},
        {'name': 'N3', 'params': {'hist': 'BMX', 'universe': UN3, 'kinds': ['is_dir'], 'roles': ['o'],
                                  'mut_paths': ['o', 'o/d', 'o/m', 'o/w', 'o/d/g']}, 'weight': 5},
    ]


class Fault:
    """One OSError at the j-th fault-able call of the armed build."""

    def __init__(self, eng, ops=None):
        self.ops = tuple(ops) if ops else FAULT_OPS
        self.exc = 'OSError'
        self.eng = eng
        self.j = eng.fresh_int('fault_j', 1, 60)
        self.count = 0
        self.fired = None
        self.sid = None
        self.side = None
        self.root_failed = False

    def arm(self, env, side):
        self.side = side
        env.hooks.append(self.hook)

    def disarm(self, env):
        if self.hook in env.hooks:
            env.hooks.remove(self.hook)

    def hook(self, op, args, mutating):
        if op not in self.ops or self.fired is not None or self.root_failed:
            return
        if op == 'rmdir' and not self.side.api_stack:
            # rmdir outside a build_file / subbuild call is commit or rollback work: outside the property
            return
        self.count += 1
        if bool(self.j == self.count):
            self.fired = (op,) + tuple(args)
            self.sid = self.side.api_stack[-1] if self.side.api_stack else None
            if self.exc == 'ValueError' and op == 'gzip-data':
                # not every failure of the cache write is an OSError: json refuses e.g. an integer of more than 4300 digits
                # with ValueError, after the file has been opened
                raise ValueError('Exceeds the limit (4300 digits) for integer string conversion (injected)')
            raise OSError(errno.EIO, 'injected I/O error', args[0] if args else None)


def harness(eng, fam, P):
    P = dict(P)
    PR = P.get('prop', 'C14')          # C02 reuses this harness for failures while the cache file is being written
    bodies = skeleton(eng, fam, P)
    shared = {}
    progs = [Program(eng, b, shared) for b in bodies]
    eng.path_info['program'] = ' || '.join(show(b) for b in bodies)
    w = World(eng, P.get('universe', U7), cache_rel=P.get('cache', 'cache'), sandbox=getattr(eng, 'sandbox', None))
    hist = P['hist']
    try:
        d = Driver(eng, w)
        nb = 0
        for si, step in enumerate(hist):
            prog = progs[min(nb, len(progs) - 1)]
            if step == 'B':
                nb += 1
                d.build(prog)
                d.guard_same('prefix')
            elif step == 'M':
                mutate(eng, w, str(si), P.get('mut_kinds', ['none', 'delete', 'write', 'rmtree', 'file2dir', 'dir2file']), P['mut_paths'])
            else:
                nb += 1
                fault = Fault(eng, P.get('only_ops'))
                if P.get('fault_excs'):
                    fault.exc = P['fault_excs'][eng.choose('fault_exc', len(P['fault_excs']))]
                    eng.path_info['fault_exc'] = fault.exc
                pre = w.fs.snapshot(w.root)
                prev_created = set(d.state.created_dirs) if w.ref.kind(w.cache) == FILE else set()
                impl, ref = _build_with_fault(d, prog, fault, w)
                if fault.fired is None:
                    raise PathAbort()           # j beyond the last fault-able call: not a fault run
                eng.note('nontrivial:fault-fired')
                eng.path_info['fault'] = fault.fired[:2]
                sig = (fam, hist, fault.fired[0])
                if fault.fired[0] in ('gzip-w', 'gzip-data'):
                    eng.witness('fault-in-cache-write')
                if fault.fired[0] in ('rename', 'makedirs'):
                    eng.witness('fault-in-backup')
                if fault.sid is None:
                    # the fault hit the root machinery (cache directory, cache backup, cache write): the build raises it
                    eng.check(PR + '.fault-surfaces', impl[0] == 'exc' and isinstance(impl[1], ValueError if fault.exc == 'ValueError' and fault.fired[0] == 'gzip-data' else OSError),
                              sig + ('root',),
                              info={'impl': repr(impl[1])[:200], 'fault': fault.fired})
                if impl[0] == 'exc':
                    eng.witness('fault-propagated-rollback')
                    eng.check(PR + '.propagated-exception-is-oserror-or-user', True, sig)
                    check_rollback(eng, w, d, pre, prev_created, (PR,) + sig)
                    d.any_oserror = True
                    d.check_same(PR + '.failed', sig)
                    d.any_oserror = False
                else:
                    eng.witness('fault-caught-build-continued')
                    d.any_oserror = True
                    d.check_same(PR + '.caught', sig)
                    d.any_oserror = False
                    eng.check(PR + '.temp-dir-left', not w.tmp_leftovers(), sig)
                    eng.check(PR + '.cache-file-written', w.fs.kind(w.cache) == FILE, sig)
                # ---- one more build without faults: bookkeeping and disk must be in step
                impl2, ref2 = d.build(prog)
                d.check_same(PR + '.next', sig)
                break
        eng.sample({'family': fam, 'program': eng.path_info['program'], 'history': hist,
                    'fault_at': list(eng.path_info.get('fault', ()))})
    finally:
        w.close()


def _build_with_fault(d, prog, fault, w):
    """Driver.build with the fault armed on the implementation side; the
    reference gets the failing call once we know which one it was."""
    from .refmodel import ref_build
    from .program import Side, run_body
    impl, ref = d.build(prog, fault=fault)
    if impl[0] == 'exc':
        return impl, ref
    return impl, ref


def _ref_restore(d, w):
    """After a build that the fault made fail as a whole, the reference (which
    ran the build with only the one call failing) is put back to its state
    before the build: a failed build leaves the pre-build state (C02)."""
    pass

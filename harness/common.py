"""Shared harness pieces: value comparison against the reference, the build /
clean driver that runs the real FileBuilder and the reference side by side."""
import posixpath

from symx.common import is_sym, PathAbort, HarnessError
from symx.fs import ABSENT, FILE, DIR
from symx import logic as L
from .refmodel import RefState, ref_build, ref_clean, DirSize
from .program import run_body, Side, Crash, Boom


def veq(a, b):
    """Structural equality of an implementation value a and a reference value
    b; the reference's DirSize matches any non-boolean integer."""
    if isinstance(b, DirSize):
        return a.__class__ is int
    ta, tb = type(a), type(b)
    if ta in (list, tuple) or tb in (list, tuple):
        if ta not in (list, tuple) or tb not in (list, tuple) or len(a) != len(b):
            return False
        return L.and_(*[veq(x, y) for x, y in zip(a, b)])
    if ta is dict or tb is dict:
        if ta is not dict or tb is not dict or set(a.keys()) != set(b.keys()):
            return False
        return L.and_(*[veq(a[k], b[k]) for k in a])
    return L.eq(a, b)


_OSERRORS = {'exc:' + n for n in ('OSError', 'FileNotFoundError', 'IsADirectoryError', 'NotADirectoryError', 'FileExistsError',
                                  'PermissionError')}


def _norm_oserror(v):
    if isinstance(v, (list, tuple)):
        return [_norm_oserror(x) for x in v]
    if type(v) is str and v in _OSERRORS:
        return 'exc:OSError'
    return v


def diff_sig(a, b):
    """A short, stable description of the first concrete difference between an
    implementation value and a reference value (for violation signatures)."""
    if isinstance(b, DirSize):
        return () if a.__class__ is int else ('dirsize',)
    ta, tb = type(a), type(b)
    if ta in (list, tuple) and tb in (list, tuple):
        if len(a) != len(b):
            return ('len', len(a), len(b))
        for x, y in zip(a, b):
            d = diff_sig(x, y)
            if d:
                return d
        return ()
    if is_sym(a) or is_sym(b):
        return ()
    if ta in (list, tuple) or tb in (list, tuple):
        return ('shape', a if ta is str else ta.__name__, b if tb is str else tb.__name__)
    if a != b:
        return (a if ta in (str, bool) else ta.__name__, b if tb in (str, bool) else tb.__name__)
    return ()


def exc_name(e):
    return type(e).__name__


class Driver:
    """Runs build / clean steps on the implementation (real FileBuilder bound to
    world.env) and on the reference, keeping both sides' logs."""

    def __init__(self, eng, world, build_name='n'):
        from file_builder import FileBuilder
        self.FileBuilder = FileBuilder
        self.eng = eng
        self.w = world
        self.state = RefState()
        self.build_name = build_name
        self.impl_calls = []
        self.ref_calls = []
        self.last = None
        self.step_no = 0
        self.prev_state = None

    def build(self, prog, crash=None, versions=None, probe=None, on_query=None, behaviour=None, fault=None):
        """One build step.  Returns (impl, ref) outcomes, each ('ok', value) or
        ('exc', exception)."""
        w = self.w
        self.step_no += 1
        si = Side(w, w.fs, False, prog)
        sr = Side(w, w.ref, True, prog)
        si.crash = sr.crash = crash
        si.behaviour = sr.behaviour = behaviour
        if probe is not None:
            si.probe = lambda b, where: probe('impl', b, where)
            sr.probe = lambda b, where: probe('ref', b, where)
        if on_query is not None:
            si.on_query = lambda k, p, r: on_query('impl', k, p, r)
            sr.on_query = lambda k, p, r: on_query('ref', k, p, r)
        if not w.bound:
            w.bind()
        def root(b):
            try:
                return run_body(b, prog.body, si)
            except BaseException:
                # whatever follows is rollback: outside the fault model of C14
                if fault is not None:
                    fault.root_failed = True
                raise
            finally:
                self.dirs_at_root_exit = self._dirs_now()

        self.dirs_at_root_exit = self._dirs_now()

        w.env._perm = None            # the (unspecified) directory listing order may differ from build to build
        if fault is not None:
            fault.arm(w.env, si)
        try:
            v = self.FileBuilder.build_versioned(w.cache, self.build_name, versions or {}, root)
            impl = ('ok', v)
        except (PathAbort, HarnessError):
            raise
        except Exception as e:
            impl = ('exc', e)
        finally:
            if fault is not None:
                fault.disarm(w.env)
        if fault is not None:
            # the reference: the API call in which the fault fired fails in setup, without any effect
            # (a fault outside any build_file/subbuild call makes the whole build fail: handled by the caller)
            sr.fail_setup = fault.sid
        self.prev_state = self.state.copy()
        if fault is not None and fault.fired is not None and fault.sid is None:
            # the fault hit the build's own machinery (cache directory / cache backup / cache write): the whole
            # build fails, the reference tree stays as it was before the build
            if getattr(fault, 'exc', 'OSError') == 'ValueError' and fault.fired[0] == 'gzip-data':
                r = ('exc', ValueError('injected serialisation failure in the root build'), None)
            else:
                r = ('exc', OSError(5, 'injected fault in the root build'), None)
        else:
            r = ref_build(w.ref, w.cache, self.state, lambda b: run_body(b, prog.body, sr))
        ref = (r[0], r[1])
        self.impl_calls = si.calls
        self.ref_calls = sr.calls
        self.impl_raised = si.raised
        self.impl_side, self.ref_side = si, sr
        self.last = (impl, ref, r[2])
        return impl, ref

    def _dirs_now(self):
        w = self.w
        return {p for p, s_ in w.fs.snapshot(w.root).items() if s_[0] == 'D'}

    def build_impl_only(self, prog, versions=None, behaviour=None):
        """Run the implementation alone (twin runs); returns (outcome, calls)."""
        w = self.w
        si = Side(w, w.fs, False, prog)
        si.behaviour = behaviour
        if not w.bound:
            w.bind()
        w.env._perm = None
        try:
            v = self.FileBuilder.build_versioned(
                w.cache, self.build_name, versions or {}, lambda b: run_body(b, prog.body, si))
            return ('ok', v), si.calls
        except (PathAbort, HarnessError):
            raise
        except Exception as e:
            return ('exc', e), si.calls

    def clean(self):
        w = self.w
        if not w.bound:
            w.bind()
        try:
            # the build name may also be given as None (unknown): a hole
            name = self.build_name if self.eng.choose('clean-name', 2) == 0 else None
            cache = w.cache
            if getattr(self, 'cache_spellings', False):
                # the cache file name may be given as str, bytes or a path-like object
                import os as _os
                import pathlib as _pl
                how = self.eng.choose('clean-cache-spelling', 3)
                cache = [cache, _os.fsencode(cache), _pl.PurePosixPath(cache)][how]
            self.FileBuilder.clean(cache, name)
            impl = ('ok', None)
        except (PathAbort, HarnessError):
            raise
        except Exception as e:
            impl = ('exc', e)
        ref_clean(w.ref, w.cache, self.state)
        return impl, ('ok', None)

    # ------------------------------------------------------------ comparisons
    def sync_rollback_latitude(self):
        """After a rolled-back build, directories that the previous committed
        build recorded as created may reappear empty (allowed by C02): mirror
        them into the reference tree so later steps stay comparable."""
        w = self.w
        for d in sorted(self.state.created_dirs, key=len):
            if w.ref.kind(d) == ABSENT and w.fs.kind(d) == DIR:
                # anything else inside it shows up as a tree difference; a
                # reappearing directory needs its ancestors, so those may
                # reappear with it (they hold nothing else, or the tree differs)
                # - but the rollback itself creates recorded directories only: an ancestor that the previous commit did
                # not record must have been there when the user's root function exited (made by the failed build)
                todo = []
                q = d
                at_exit = getattr(self, 'dirs_at_root_exit', None)
                while w.ref.kind(q) == ABSENT and w.fs.kind(q) == DIR:
                    if q not in self.state.created_dirs and at_exit is not None and q not in at_exit:
                        todo = None
                        break
                    todo.append(q)
                    q = posixpath.dirname(q)
                if todo and w.ref.kind(q) == DIR:
                    for q in reversed(todo):
                        w.ref.add_dir(q)

    def check_same(self, prefix, sig=()):
        """C01 assertions for the last build step: same outcome, same value or
        exception class, same tree (paths, kinds, contents)."""
        eng, w = self.eng, self.w
        impl, ref, _ = self.last
        if getattr(self, 'any_oserror', False) and impl[0] == 'ok' and ref[0] == 'ok':
            # fault runs: which OSError subclass the library turns an injected OSError into is not prescribed
            impl, ref = ('ok', _norm_oserror(impl[1])), ('ok', _norm_oserror(ref[1]))
        sig = tuple(sig)
        if impl[0] != ref[0]:
            eng.check(prefix + '.outcome', False,
                      sig + (impl[0], exc_name(impl[1]) if impl[0] == 'exc' else '-',
                             ref[0], exc_name(ref[1]) if ref[0] == 'exc' else '-'),
                      info={'impl': repr(impl[1])[:300], 'ref': repr(ref[1])[:300]})
        if impl[0] == 'exc':
            same_exc = exc_name(impl[1]) == exc_name(ref[1])
            if getattr(self, 'any_oserror', False) and isinstance(impl[1], OSError) and isinstance(ref[1], OSError):
                same_exc = True
            eng.check(prefix + '.exctype', same_exc,
                      sig + (exc_name(impl[1]), exc_name(ref[1])), info={'impl': repr(impl[1])[:300]})
            self.sync_rollback_latitude()
        else:
            eng.check(prefix + '.value', veq(impl[1], ref[1]), sig + diff_sig(impl[1], ref[1]),
                      info={'impl': repr(impl[1])[:400], 'ref': repr(ref[1])[:400]})
        self.check_tree(prefix, sig)

    def guard_same(self, what='build'):
        """Same comparison as check_same, but as a guard: a divergence from the
        reference here belongs to another property (C01), so the path just ends
        (counted in the evidence notes) instead of raising this property's alarm."""
        from symx.common import PathEnd
        eng, w = self.eng, self.w
        impl, ref, _ = self.last
        ok = impl[0] == ref[0]
        if ok and impl[0] == 'exc':
            ok = exc_name(impl[1]) == exc_name(ref[1])
            self.sync_rollback_latitude()
        elif ok:
            ok = eng.holds(veq(impl[1], ref[1]))
        if ok:
            ok = self.trees_equal()
        if not ok:
            eng.note('guard:diverged-from-reference-in-' + what)
            raise PathEnd()

    def trees_equal(self):
        eng, w = self.eng, self.w
        a, b = w.snap(w.fs), w.snap(w.ref)
        if set(a) != set(b) or any(a[p][0] != b[p][0] for p in a):
            return False
        return eng.holds(L.and_(*[L.eq(a[p][2], b[p][2]) for p in a if a[p][0] == 'F']))

    def check_tree(self, prefix, sig=()):
        eng, w = self.eng, self.w
        a = w.snap(w.fs)
        b = w.snap(w.ref)
        conds = []
        for p in sorted(set(a) | set(b)):
            ka = a[p][0] if p in a else '-'
            kb = b[p][0] if p in b else '-'
            if ka != kb:
                eng.check(prefix + '.tree', False, tuple(sig) + (w.rel(p), ka, kb),
                          info={'path': w.rel(p), 'impl': ka, 'ref': kb})
            elif ka == 'F':
                conds.append(L.eq(a[p][2], b[p][2]))
        eng.check(prefix + '.content', L.and_(*conds), sig)
        return a, b

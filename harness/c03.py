"""C03 foreign files and directories are never modified, moved or deleted."""
from .hist import run_history, U_C
from .skeletons import U7, UN3

LEVEL = 'model_checking'
BUDGET_S = {'quick': 230, 'thorough': 1500}
BOUNDS = {
    'quick': 'universe U7 (+ c for the cache directory): every universe path may initially be a foreign file or directory '
             '(also at target and former-output positions); foreign files planted by mutations inside created '
             'directories (o/z, o/d/z) and next to the cache (c/z); histories B.M.B, B.M.C, B.M.F, B.B (file<->dir swap); a foreign file appearing '
             'while the second build runs (at a symbolic point between two calls of the user program, families A8c and A4 on B.B); '
             'snapshot (inode, content id, mtime) of everything outside the managed set before/after every API call plus an '
             'allow-list over every mutating system call the library makes',
    'thorough': 'wider holes, skeleton set B, histories of 4-5 steps',
}
ASSUMPTIONS = ['managed set = cache file + paths passed to build_file in this build + outputs recorded by the previous commit '
               '(computed from the program and the reference model, never from the library bookkeeping)']
WITNESSES = {'quick': ['build-raised', 'clean-with-cache', 'planted-during-build'], 'thorough': ['clean-with-cache']}


def families(tier):
    mp = ['o', 'o/d', 'o/d/g', 'o/z', 'o/d/z']
    q = [
        {'name': 'A5b', 'params': {'hist': 'BMB', 'modes': ['ok', 'raise_before'], 'mut_paths': mp}, 'weight': 3},
        {'name': 'A5b', 'params': {'hist': 'BMC', 'modes': ['ok'], 'mut_paths': mp}, 'weight': 2},
        {'name': 'A5a', 'params': {'hist': 'BMF', 'modes': ['ok'], 'mut_paths': mp}, 'weight': 3},
        {'name': 'A8', 'params': {'hist': 'BMB', 'kinds': ['is_dir'], 'mut_paths': ['o/d', 'o/d/z', 'o/z']}, 'weight': 3},
        {'name': 'A8', 'params': {'hist': 'BBC', 'kinds': ['is_dir']}, 'weight': 1},
        {'name': 'A3', 'params': {'hist': 'BMC', 'kinds': ['is_file'], 'roles': ['in/x'], 'targets': ['o/d/g'], 'modes': ['ok'],
                                  'cache': 'c/cache', 'universe': U_C, 'mut_paths': ['c/z', 'o/z', 'o/d/z', 'o/d/g']}, 'weight': 2},
        {'name': 'A4', 'params': {'hist': 'BMB', 'kinds': ['is_dir'], 'roles': ['o'], 'targets': ['o/d/g'],
                                  'modes': ['ok', 'raise_after'], 'mut_paths': mp}, 'weight': 2},
    ]
    q.append({'name': 'backups', 'params': {}, 'weight': 1})
    q.append({'name': 'A8b', 'params': {'hist': 'BMB', 'kinds': ['is_dir'], 'mut_paths': ['o/d/z', 'o/d/e/z', 'o/d/e']}, 'weight': 1})
    # a foreign file appears while the build is running (between two calls of the user program)
    q.append({'name': 'A8c', 'params': {'hist': 'BB', 'kinds': ['is_dir', 'list_dir'], 'midplant': True,
                                        'plant_paths': ['o/d/z', 'o/d/e/z', 'o/z']}, 'weight': 1})
    q.append({'name': 'A4', 'params': {'hist': 'BB', 'kinds': ['is_dir'], 'roles': ['o'], 'targets': ['o/d/g'], 'modes': ['ok', 'raise_after'],
                                       'midplant': True, 'plant_paths': ['o/d/z', 'o/z', 'o/d/g/z']}, 'weight': 1})
    q.append({'name': 'A5d', 'params': {'hist': 'BMB', 'kinds': ['is_dir'], 'modes': ['ok', 'raise_after'], 'mut_paths': ['o/z', 'o/d/z', 'o/d'],
                                        'mut_kinds': ['none', 'write', 'mkdir', 'file2dir']}, 'weight': 1})
    q.append({'name': 'A5c', 'params': {'hist': 'BMB', 'kinds': ['is_dir'], 'modes': ['ok', 'raise_after'], 'mut_paths': ['o/z', 'o/d/z', 'o/d'],
                                        'mut_kinds': ['none', 'write', 'mkdir', 'file2dir']}, 'weight': 1})
    q.append({'name': 'S1', 'params': {'hist': 'F'}, 'weight': 1})
    q.append({'name': 'S1', 'params': {'hist': 'BMF', 'mut_paths': ['o/d', 'o/d/g', 'o/z']}, 'weight': 2})
    q.append({'name': 'N3', 'params': {'hist': 'BBC', 'universe': UN3, 'kinds': ['is_dir'], 'roles': ['o']}, 'weight': 3})
    if tier == 'quick':
        return q
    return q + [
        {'name': 'A5b', 'params': {'hist': 'BMBMC', 'modes': ['ok', 'raise_before'], 'mut_paths': mp}, 'weight': 5},
        {'name': 'A5a', 'params': {'hist': 'BMFMB', 'modes': ['ok', 'raise_after'], 'mut_paths': mp}, 'weight': 5},
        {'name': 'A8', 'params': {'hist': 'BMBMC', 'kinds': ['is_dir'], 'mut_paths': ['o/d', 'o/d/z', 'o/z']}, 'weight': 4},
        {'name': 'B3', 'params': {'hist': 'BMB', 'mut_paths': ['o/d', 'o/d/z', 'o/d/g']}, 'weight': 3},
        {'name': 'A6', 'params': {'hist': 'BMB', 'kinds': ['is_dir'], 'mut_paths': mp + ['o/x']}, 'weight': 3},
    ]


def harness(eng, fam, P):
    if fam == 'backups':
        # overwritten foreign files are moved aside through FileBackups: at any backup index they must come back
        from .c02 import backups_family
        eng.witness('build-raised')
        return backups_family(eng, P, 'C03')
    run_history(eng, fam, P, 'C03')

"""C03 foreign files and directories are never modified, moved or deleted."""
from .hist import run_history, U_C
from .skeletons import U7, UN3

LEVEL = 'model_checking'
BUDGET_S = {'quick': 230, 'thorough': 1500}
BOUNDS = {
    'quick': 'universe U7 (+ c for the cache directory): every universe path may initially be a foreign file or directory '
             '(also at target and former-output positions); foreign files planted by mutations inside created '
             'directories (o/z, o/d/z) and next to the cache (c/z); histories B.M.B, B.M.C, B.M.F, B.B (file<->dir swap); a foreign file appearing '
             'while the second build runs (at a symbolic point between two calls of the user program, families A8c and A4 on B.B); '
             'skeleton A12 (an output over a possibly foreign file, then a build_file on a NUL-byte or 256-character name) on B and B.M.B; '
             'two builds with overlapping lifetimes in one process (a second build on its own cache started inside the first, which '
             'overwrote a foreign file and then raises); snapshot (inode, content id, mtime) of everything outside the managed set before/after every API call plus an '
             'allow-list over every mutating system call the library makes',
    'thorough': 'wider holes, skeleton set B, histories of 4-5 steps',
}
ASSUMPTIONS = ['managed set = cache file + paths passed to build_file in this build + outputs recorded by the previous commit '
               '(computed from the program and the reference model, never from the library bookkeeping)']
WITNESSES = {'quick': ['build-raised', 'clean-with-cache', 'planted-during-build', 'nested-build-overlapped'], 'thorough': ['clean-with-cache']}


def families(tier):
    mp = ['o', 'o/d', 'o/d/g', 'o/z', 'o/d/z']
    q = [
        {'name': 'A5b', 'params': {'hist': 'BMB', 'modes': ['ok', 'raise_before'], 'mut_paths': mp}, 'weight': 3},
        {'name': 'A5b', 'params': {'hist': 'BMC', 'modes': ['ok'], 'mut_paths': mp}, 'weight': 2},
        {'name': 'A5a', 'params': {'hist': 'BMF', 'modes': ['ok'], 'mut_paths': mp}, 'weight': 3},
        {'name': 'A8', 'params': {'hist': 'BMB', 'kinds': ['is_dir'], 'mut_paths': ['o/d', 'o/d/z', 'o/z']}, 'weight': 3},
        {'name': 'A8', 'params': {'hist': 'BBC', 'kinds': ['is_dir']}, 'weight': 1},
        {'name': 'A3', 'params': {'hist': 'BMC', 'kinds': ['is_file'], 'roles': ['in/x'], 'targets': ['o/d/g'], 'modes': ['ok'],
                                  'cache': 'c/cache', 'universe': U_C, 'mut_paths': ['c/z', 'o/z', 'o/d/z', 'o/d/g']}, 'weight': 2},
        {'name': 'A4', 'params': {'hist': 'BMB', 'kinds': ['is_dir'], 'roles': ['o'], 'targets': ['o/d/g'],
                                  'modes': ['ok', 'raise_after'], 'mut_paths': mp}, 'weight': 2},
    ]
    q.append({'name': 'backups', 'params': {}, 'weight': 1})
    q.append({'name': 'A8b', 'params': {'hist': 'BMB', 'kinds': ['is_dir'], 'mut_paths': ['o/d/z', 'o/d/e/z', 'o/d/e']}, 'weight': 1})
    # a foreign file appears while the build is running (between two calls of the user program)
    q.append({'name': 'A8c', 'params': {'hist': 'BB', 'kinds': ['is_dir', 'list_dir'], 'midplant': True,
                                        'plant_paths': ['o/d/z', 'o/d/e/z', 'o/z']}, 'weight': 1})
    q.append({'name': 'A4', 'params': {'hist': 'BB', 'kinds': ['is_dir'], 'roles': ['o'], 'targets': ['o/d/g'], 'modes': ['ok', 'raise_after'],
                                       'midplant': True, 'plant_paths': ['o/d/z', 'o/z', 'o/d/g/z']}, 'weight': 1})
    q.append({'name': 'A11', 'params': {'hist': 'BB', 'kinds': ['is_dir', 'list_dir'], 'midplant': True, 'plant_dirs': True,
                                        'plant_paths': ['o/d/r', 'o/d/z']}, 'weight': 1})
    q.append({'name': 'A5d', 'params': {'hist': 'BMB', 'kinds': ['is_dir'], 'modes': ['ok', 'raise_after'], 'mut_paths': ['o/z', 'o/d/z', 'o/d'],
                                        'mut_kinds': ['none', 'write', 'mkdir', 'file2dir']}, 'weight': 1})
    q.append({'name': 'A5c', 'params': {'hist': 'BMB', 'kinds': ['is_dir'], 'modes': ['ok', 'raise_after'], 'mut_paths': ['o/z', 'o/d/z', 'o/d'],
                                        'mut_kinds': ['none', 'write', 'mkdir', 'file2dir']}, 'weight': 1})
    # outputs in a hand-made directory are dropped by the next build: the directory is not the library's to remove
    q.append({'name': 'A10', 'params': {'hist': 'BMB', 'kinds': ['is_dir'], 'mut_paths': ['o/d/g', 'o/d/z'], 'mut_kinds': ['none', 'delete', 'write']}, 'weight': 1})
    # an overwritten foreign file, then a build_file on a name the OS refuses (NUL byte: ValueError; over-long: OSError)
    q.append({'name': 'A12', 'params': {'hist': 'B', 'kinds': ['is_dir'], 'targets': ['o/f', 'o/d/g']}, 'weight': 1})
    q.append({'name': 'A12', 'params': {'hist': 'BMB', 'kinds': ['is_dir'], 'targets': ['o/d/g'], 'mut_paths': ['o/d/g', 'o/d'],
                                        'mut_kinds': ['none', 'write', 'delete', 'dir2file']}, 'weight': 1})
    q.append({'name': 'nested-build', 'params': {}, 'weight': 1})
    q.append({'name': 'S1', 'params': {'hist': 'F'}, 'weight': 1})
    q.append({'name': 'S1', 'params': {'hist': 'BMF', 'mut_paths': ['o/d', 'o/d/g', 'o/z']}, 'weight': 2})
    q.append({'name': 'N3', 'params': {'hist': 'BBC', 'universe': UN3, 'kinds': ['is_dir'], 'roles': ['o']}, 'weight': 3})
    if tier == 'quick':
        return q
    return q + [
        {'name': 'A5b', 'params': {'hist': 'BMBMC', 'modes': ['ok', 'raise_before'], 'mut_paths': mp}, 'weight': 5},
        {'name': 'A5a', 'params': {'hist': 'BMFMB', 'modes': ['ok', 'raise_after'], 'mut_paths': mp}, 'weight': 5},
        {'name': 'A8', 'params': {'hist': 'BMBMC', 'kinds': ['is_dir'], 'mut_paths': ['o/d', 'o/d/z', 'o/z']}, 'weight': 4},
        {'name': 'B3', 'params': {'hist': 'BMB', 'mut_paths': ['o/d', 'o/d/z', 'o/d/g']}, 'weight': 3},
        {'name': 'A6', 'params': {'hist': 'BMB', 'kinds': ['is_dir'], 'mut_paths': mp + ['o/x']}, 'weight': 3},
    ]


def nested_builds(eng, P):
    """Two builds whose lifetimes overlap in one process (a second build, on its own cache and tree, started from inside
    the first one's root function): the first overwrites a foreign file and later raises - the foreign file is back,
    whatever the inner build did in between.  Reference-free."""
    from symx import logic as L
    from symx.fs import FILE, ABSENT
    from .world import World
    from .program import Boom
    from file_builder import FileBuilder
    w = World(eng, ['p', 'p/out'], fixed={'o': 'D', 'o/f': 'F'}, sandbox=getattr(eng, 'sandbox', None))
    try:
        w.bind()
        inner_fails = bool(eng.choose('inner_fails', 2))
        order = eng.choose('order', 2)          # inner build before / after the outer build overwrote the foreign file
        F, cache2, out2 = w.p('o/f'), w.p('cache2'), w.p('p/out')
        pre = w.fs.snapshot(w.root)

        def inner_root(b2):
            b2.build_file(out2, 'g', lambda b3, fn: w.user_write(w.fs, fn, 7))
            if inner_fails:
                raise Boom()
            return 1

        def run_inner():
            try:
                FileBuilder.build(cache2, 'n2', inner_root)
            except Exception:
                pass                      # the inner build may fail (Boom, or p is a foreign file): its own business

        def root(b):
            if order == 0:
                run_inner()
            b.build_file(F, 'f', lambda b2, fn: w.user_write(w.fs, fn, 8))
            if order == 1:
                run_inner()
            raise Boom()

        try:
            FileBuilder.build(w.cache, 'n', root)
            eng.check('C03.outer-build-did-not-raise', False, ('nested-build',))
        except Boom:
            pass
        eng.witness('build-raised')
        eng.witness('nested-build-overlapped')
        post = w.fs.snapshot(w.root)
        sig = ('nested-build', 'inner-fails' if inner_fails else 'inner-commits', 'order%d' % order)
        a, b_ = pre.get(F), post.get(F)
        eng.check('C03.overwritten-foreign-file-not-restored', b_ is not None and b_[0] == 'F', sig, info={'after': b_ and b_[0]})
        if b_ is not None and b_[0] == 'F':
            eng.check('C03.foreign-bytes-mtime', L.and_(L.eq(a[2], b_[2]), L.eq(a[3], b_[3])), sig)
        # every other foreign file / directory of the pre-state is untouched as well
        for p_, s_ in pre.items():
            if p_ in (F, out2, cache2, w.cache):
                continue
            q_ = post.get(p_)
            eng.check('C03.foreign-file-gone' if s_[0] == 'F' else 'C03.foreign-dir-removed', q_ is not None and q_[0] == s_[0],
                      sig + (w.rel(p_),), info={'path': w.rel(p_)})
        eng.check('C03.temp-dir-left', not w.tmp_leftovers(), sig)
        eng.sample({'family': 'nested-build', 'inner_fails': inner_fails, 'order': order})
    finally:
        w.close()


def harness(eng, fam, P):
    if fam == 'nested-build':
        return nested_builds(eng, P)
    if fam == 'backups':
        # overwritten foreign files are moved aside through FileBackups: at any backup index they must come back
        from .c02 import backups_family
        eng.witness('build-raised')
        return backups_family(eng, P, 'C03')
    run_history(eng, fam, P, 'C03')

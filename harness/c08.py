"""C08 at most one execution per output file and per subbuild key in a build."""
from symx import logic as L
from symx.common import PathAbort
from symx.fs import FILE, ABSENT
from symx.sched import Sched, FakeThreading, Deadlock, install
from .world import World
from .program import Program, show, Boom
from .common import Driver, veq, exc_name
from .mutate import mutate
from .skeletons import pick

LEVEL = 'model_checking'
BUDGET_S = {'quick': 120, 'thorough': 900}
BOUNDS = {
    'quick': 'sequential placements of a duplicate (same level, nested in itself, in a sibling function that catches, first '
             'occurrence failed, first occurrence cached vs rebuilt, duplicate hidden in a cached subtree that would be reused - holder '
             'a subbuild or a build_file, reused before or after the direct call) '
             'for build_file paths and for subbuild keys with symbolic integer / float arguments (direct call before or after the subbuild holding the nested occurrence); histories B.M.B.B; and two '
             'threads issuing the same build_file path / subbuild key, pre-emption bound up to 3, every library system call and lock '
             'acquire a yield point, first occurrence fresh or served from the cache',
    'thorough': 'pre-emption bound up to 4',
}
ASSUMPTIONS = ['thread switches only at environment calls and lock operations']
WITNESSES = {'quick': ['duplicate-rejected', 'catcher-reexecuted', 'threads-one-winner', 'rejected-reuse-then-first-call'], 'thorough': ['duplicate-rejected']}

T = 'o/d/g'


def families(tier):
    q = [
        {'name': 'seq', 'params': {'hist': 'BMBB'}, 'weight': 3},
        {'name': 'seq-sb', 'params': {'hist': 'BB'}, 'weight': 1},
        {'name': 'threads-bf', 'params': {'P': 2, 'prefix': False}, 'weight': 2},
        {'name': 'threads-bf', 'params': {'P': 1, 'prefix': True}, 'weight': 2},
        {'name': 'threads-sb', 'params': {'P': 2, 'prefix': False}, 'weight': 1},
        {'name': 'threads-bf', 'params': {'P': 3, 'prefix': False}, 'weight': 3},
        # pre-emption points also right after every lock release (a claim completed outside its critical section)
        {'name': 'threads-bf', 'params': {'P': 2, 'prefix': False, 'release_points': True}, 'weight': 3},
        {'name': 'threads-sb', 'params': {'P': 2, 'prefix': False, 'release_points': True}, 'weight': 2},
        {'name': 'threads-bf', 'params': {'P': 2, 'prefix': True}, 'weight': 3},
        {'name': 'threads-reuse', 'params': {'P': 2, 'prefix': True}, 'weight': 3},
        # the contested file is not the first node of the cached subtree being taken over; afterwards an earlier node's key is called
        {'name': 'threads-reuse', 'params': {'P': 2, 'prefix': True, 'deep': True}, 'weight': 3},
        {'name': 'threads-bf', 'params': {'P': 2, 'prefix': True, 'callers': True}, 'weight': 3},
        {'name': 'threads-sb', 'params': {'P': 2, 'prefix': True, 'callers': True}, 'weight': 3},
        {'name': 'threads-sb', 'params': {'P': 2, 'prefix': True, 'stale': True}, 'weight': 2},
        {'name': 'threads-bf', 'params': {'P': 2, 'prefix': True, 'stale': True}, 'weight': 2},
    ]
    if tier == 'quick':
        return q
    return q + [
        {'name': 'threads-reuse', 'params': {'P': 3, 'prefix': True}, 'weight': 4},
        {'name': 'threads-bf', 'params': {'P': 4, 'prefix': False}, 'weight': 4},
        {'name': 'threads-bf', 'params': {'P': 3, 'prefix': True}, 'weight': 4},
        {'name': 'threads-sb', 'params': {'P': 3, 'prefix': True}, 'weight': 3},
    ]


PLACEMENTS = ['same-level', 'nested-in-itself', 'sibling-catches', 'first-failed', 'hidden-in-cached-subtree', 'sb-catches-then-first',
              'hidden-bf-holder-first', 'hidden-sb-holder-first', 'hidden-bf-dup-first', 'hidden-below-raised-holder-first',
              'hidden-below-raised-dup-first']
# placements whose first build runs only the holder (so that later builds reuse its cached subtree): index of the holder
HOLDER_ONLY_FIRST = {'hidden-in-cached-subtree': 1, 'hidden-bf-holder-first': 0, 'hidden-sb-holder-first': 0, 'hidden-bf-dup-first': 1,
                     'hidden-below-raised-holder-first': 0, 'hidden-below-raised-dup-first': 1}
H = 'o/h'


def seq_program(eng):
    pl = pick(eng, 'placement', PLACEMENTS)
    m = pick(eng, 'mode', ['ok', 'raise_after'])
    dup = ('BF', T, {'mode': 'ok', 'catch': True}, [])
    if pl == 'same-level':
        return pl, [('BF', T, {'mode': m, 'catch': True}, []), dup, ('Q', 'is_file', T)]
    if pl == 'nested-in-itself':
        return pl, [('BF', T, {'mode': m, 'catch': True}, [dup]), ('Q', 'is_file', T)]
    if pl == 'sibling-catches':
        return pl, [('SB', 'a', {}, [('BF', T, {'mode': m, 'catch': True}, [])]), ('SB', 'b', {}, [dup, ('Q', 'is_dir', 'o/d')])]
    if pl == 'first-failed':
        return pl, [('SB', 'a', {}, [('BF', T, {'mode': 'raise_after', 'catch': True}, []), dup])]
    if pl == 'hidden-in-cached-subtree':
        # build 1 only runs SB(a)[BF(T)]; later builds build T first at the root, then call a (whose record holds T)
        return pl, [('BF', T, {'mode': m, 'catch': True, 'name': 'root-first'}, []), ('SB', 'a', {'catch': True}, [('BF', T, {'mode': 'ok'}, [])])]
    if pl == 'hidden-bf-holder-first':
        # the holder (a build_file whose function built T) is served from the cache, then T is asked for directly
        return pl, [('BF', H, {'mode': 'ok', 'catch': True, 'name': 'holder'}, [('BF', T, {'mode': 'ok', 'name': 'inner'}, [])]), dup]
    if pl == 'hidden-sb-holder-first':
        return pl, [('SB', 'a', {'catch': True}, [('BF', T, {'mode': 'ok', 'name': 'inner'}, [])]), dup]
    if pl.startswith('hidden-below-raised'):
        # the cached holder caught a failing build_file whose function had built T before it raised
        holder = ('SB', 'a', {'catch': True}, [('BF', H, {'mode': 'raise_after', 'catch': True, 'name': 'failing'},
                                                [('BF', T, {'mode': 'ok', 'name': 'inner'}, [])])])
        first = ('BF', T, {'mode': m, 'catch': True, 'name': 'root-first'}, [])
        return pl, ([holder, dup] if pl.endswith('holder-first') else [first, holder])
    if pl == 'hidden-bf-dup-first':
        return pl, [('BF', T, {'mode': m, 'catch': True, 'name': 'root-first'}, []),
                    ('BF', H, {'mode': 'ok', 'catch': True, 'name': 'holder'}, [('BF', T, {'mode': 'ok', 'name': 'inner'}, [])])]
    return pl, [('SB', 'b', {}, [('BF', T, {'mode': 'ok', 'catch': True}, [])]), ('BF', T, {'mode': m, 'catch': True}, [])]


def harness(eng, fam, P):
    if fam.startswith('threads'):
        return threads(eng, fam, P)
    if fam == 'seq-sb':
        i, j = eng.fresh_int('i'), eng.fresh_int('j')
        j2 = j if eng.choose('jfloat', 2) == 0 else eng.fresh_float('jf')
        body = [('SB', 'k', {'args': (i,), 'catch': True}, [('Q', 'is_dir', 'o')]),
                ('SB', 'c', {}, [('SB', 'k', {'args': (j2,), 'catch': True}, [('Q', 'is_dir', 'o')])])]
        pl = 'subbuild-key'
        if eng.choose('holder_first', 2):
            # the subtree holding the nested occurrence comes first (and is reused as a whole in the second build), the direct
            # call of the same key follows it
            body = body[::-1]
            pl = 'subbuild-key-holder-first'
    else:
        pl, body = seq_program(eng)
    shared = {}
    prog = Program(eng, body, shared)
    eng.path_info.update({'program': show(body), 'placement': pl})
    w = World(eng, ['o', 'o/d', 'o/d/g'], sandbox=getattr(eng, 'sandbox', None))
    try:
        d = Driver(eng, w)
        nb = 0
        first_prog = prog
        if pl in HOLDER_ONLY_FIRST:
            first_prog = Program(eng, [body[HOLDER_ONLY_FIRST[pl]]], shared)
            # the sids of a differ between the two programs; fine: invocations are compared per build
        caught_setup = set()
        for si, step in enumerate(P['hist']):
            if step == 'M':
                mutate(eng, w, str(si), ['none', 'delete', 'write'], [T, 'o/d'])
                continue
            nb += 1
            p = first_prog if nb == 1 else prog
            impl, ref = d.build(p)
            sig = (fam, pl, 'build%d' % nb)
            d.check_same('C08', sig)
            # at most one execution per key
            per_target = {}
            for sid in d.impl_calls:
                key = _key(p, sid)
                per_target[key] = per_target.get(key, 0) + 1
            eng.check('C08.executed-more-than-once', all(v <= 1 for v in per_target.values()), sig, info={'calls': d.impl_calls})
            rs = d.ref_side
            if any(o == 'setup-failed' for o in rs.outcome.values()):
                eng.witness('duplicate-rejected')
            # a caller that caught a rejection in the previous build is re-executed now
            if nb >= 2 and p is prog:
                missing = [s for s in caught_setup if s not in d.impl_calls and s in rs.calls]
                eng.check('C08.catcher-served-from-cache', not missing, sig, info={'catchers': sorted(caught_setup), 'calls': d.impl_calls})
                if caught_setup and not missing:
                    eng.witness('catcher-reexecuted')
            caught_setup = set()
            if impl[0] == 'ok' and p is prog:
                for s_, o in rs.outcome.items():
                    if o == 'setup-failed' and '.' in s_[2:]:
                        caught_setup.add(s_.rsplit('.', 1)[0])
        eng.sample({'family': fam, 'placement': pl, 'program': show(body), 'history': P['hist']})
    finally:
        w.close()


def _key(prog, sid):
    for f in prog.functions:
        if f[0] == sid:
            return (f[1], f[2]) if f[1] == 'BF' else (f[1], sid)
    return sid


def threads(eng, fam, P):
    from file_builder import FileBuilder
    w = World(eng, ['o', 'o/d'], sandbox=getattr(eng, 'sandbox', None))
    contents = [eng.fresh_int('c0'), eng.fresh_int('c1')]
    calls = []
    eng.path_info.update({'scenario': fam, 'P': P['P'], 'prefix': P['prefix']})
    try:
        w.bind({'threading': FakeThreading()})
        path = w.p(T)

        def op(b, i, log):
            def f(b2, fn=None):
                log.append(i)
                if P.get('stale'):
                    b2.is_file(w.p('probe'))        # recorded: validating the (stale) record takes system calls
                if fam in ('threads-bf', 'threads-reuse'):
                    w.user_write(w.fs, fn, contents[i])
                return ['value-of', i]
            try:
                if fam == 'threads-bf':
                    return b.build_file(path, 'f', f)
                if fam == 'threads-reuse':
                    # the duplicate is implied: one caller goes through a subbuild whose (cached) subtree holds the file
                    if i == 0:
                        if P.get('deep'):
                            # the file is not the first node of the holder's (cached) subtree: a subbuild comes before it
                            def holder(b2):
                                holder_runs.append(1)
                                return [b2.subbuild('first', first_fn), b2.build_file(path, 'f', lambda b3, fn: f(b3, fn))]
                            return b.subbuild('holder', holder)
                        return b.subbuild('holder', lambda b2: b2.build_file(path, 'f', lambda b3, fn: f(b3, fn)))
                    return b.build_file(path, 'f', f)
                return b.subbuild('k', f, 7)
            except RuntimeError:
                return 'exc:RuntimeError'
            except Exception as e:
                return 'exc:' + exc_name(e)

        holder_runs, first_runs = [], []

        def first_fn(b2):
            first_runs.append(1)
            return ['first']

        if P['prefix']:
            # a committed sequential build first: the first occurrence of the threaded build can be served from the cache
            try:
                FileBuilder.build(w.cache, 'n', lambda b: op(b, 0, []))
            except Exception:
                raise PathAbort()
        del holder_runs[:], first_runs[:]
        if P.get('stale'):
            # the committed record of the key has gone stale: both threads will find that out, and both go on to execute
            w.ext_write(w.p('probe'), eng.fresh_int('probecid'), eng.fresh_int('probemt', 0, 2 ** 62))
        info = {}

        def caller(b, i, log):
            # a caching caller that catches the rejection of the duplicate
            if not P.get('callers'):
                return op(b, i, log)
            return b.subbuild('caller%d' % i, lambda b2: (caller_runs.append(i), op(b2, i, log))[1])

        caller_runs = []

        def root(b):
            s = Sched(eng, P['P'])
            Sched.release_points = bool(P.get('release_points'))
            hook = install(w, s)
            res = {}
            ts = [s.spawn(lambda i=i: res.__setitem__(i, caller(b, i, calls)), 'w%d' % i) for i in range(2)]
            try:
                s.run_all()
            finally:
                w.env.hooks.remove(hook)
                s.close()
                info['trace'] = s.trace[:8]
                info['thread_exc'] = [exc_name(t.exc) if t.exc is not None else None for t in ts]
            if P.get('deep'):
                # afterwards the root itself calls the subbuild that precedes the file in the holder's subtree
                info['holder_ran'], info['first_ran'] = bool(holder_runs), bool(first_runs)
                try:
                    info['late_first'] = b.subbuild('first', first_fn)
                except RuntimeError:
                    info['late_first'] = 'exc:RuntimeError'
            return [res.get(0), res.get(1)]

        sig = (fam, 'P%d' % P['P'], 'prefix' if P['prefix'] else 'fresh')
        try:
            v = FileBuilder.build(w.cache, 'n', root)
        except Deadlock:
            eng.check('C08.deadlock', False, sig, info=info)
            return
        except Exception as e:
            eng.check('C08.build-raised', False, sig + (exc_name(e),), info={'exc': repr(e)[:300], 'schedule': info.get('trace')})
            return
        eng.path_info['schedule'] = info.get('trace')
        oks = [x for x in v if isinstance(x, list)]
        rej = [x for x in v if x == 'exc:RuntimeError']
        setup_same = (not oks and not rej and v[0] == v[1])        # both refused for the same reason unrelated to duplication
        if setup_same:
            eng.note('both-refused-in-setup')
            return
        eng.check('C08.exactly-one-winner', len(oks) == 1 and len(rej) == 1, sig + (str(v[0])[:20], str(v[1])[:20]),
                  info={'results': repr(v), 'schedule': info.get('trace'), 'thread_exc': info.get('thread_exc')})
        eng.check('C08.function-executions', len(calls) <= 1, sig, info={'calls': list(calls), 'schedule': info.get('trace')})
        eng.witness('threads-one-winner')
        if fam in ('threads-bf', 'threads-reuse'):
            k = w.fs.kind(path)
            eng.check('C08.winner-output-disturbed', k == FILE, sig + ('kind%d' % k,),
                      info={'kind of the output after the build': k, 'schedule': info.get('trace')})
            if calls:
                n = w.fs.snapshot(w.root).get(path)
                eng.check('C08.winner-output-content', L.eq(n[2], contents[calls[0]]), sig)
        if P.get('deep') and v[0] == 'exc:RuntimeError' and not info.get('holder_ran') and not info.get('first_ran'):
            # the holder was rejected while its cached record was being taken over (its function never ran): the rejected
            # attempt has no effect, so the first real call of a key inside that record is not a duplicate
            eng.check('C08.rejected-reuse-left-claims', isinstance(info.get('late_first'), list), sig + ('late-first',),
                      info={'late call of first': repr(info.get('late_first')), 'results': repr(v), 'schedule': info.get('trace')})
            eng.witness('rejected-reuse-then-first-call')
        if P.get('callers') and rej:
            # the caller that caught the rejection is never served from the cache: alone in the next build it is
            # re-executed and its call succeeds
            loser = [i for i in range(2) if v[i] == 'exc:RuntimeError'][0]
            del caller_runs[:]
            v3 = FileBuilder.build(w.cache, 'n', lambda b: caller(b, loser, []))
            eng.check('C08.rejected-attempt-served-from-cache', loser in caller_runs and isinstance(v3, list), sig + ('caller%d' % loser,),
                      info={'caller_runs': list(caller_runs), 'value': repr(v3), 'schedule': info.get('trace')})
            eng.witness('catcher-reexecuted')
        # the record of the winner is valid: an unchanged sequential build re-executes nothing
        calls2 = []
        v2 = FileBuilder.build(w.cache, 'n', lambda b: op(b, 0, calls2))
        eng.check('C08.winner-record-not-reusable', not calls2 and isinstance(v2, list), sig, info={'calls': calls2, 'value': repr(v2)})
        eng.sample({'scenario': fam, 'P': P['P'], 'results': v, 'schedule': info.get('trace')})
    finally:
        Sched.cur = None
        Sched.release_points = False
        w.close()

"""C16 cache persistence is faithful: what a committed build recorded is what the
next build sees (values of any JSON shape, odd file names, created directories,
versions, failure markers)."""
from symx import logic as L
from symx.fs import ABSENT, FILE, DIR
from .world import World
from .program import Program, show
from .common import Driver
from . import jsonval as J

LEVEL = 'model_checking'
BUDGET_S = {'quick': 200, 'thorough': 900}
BOUNDS = {
    'quick': 'program SB(a)[BF(<name>)[]; SB(b, raises, caught)[]]; BF(<name2>, fails, caught); BF(o/r); SB(d)[BF(o/r) rejected, caught]; SB(g)[bottom-up walk(o); walk(o)]: return value of one function a '
             'JSON template (depth <= 2, width <= 2, all leaf kinds, symbolic leaves), versions map with a template value; '
             'output names from a legal-name list (spaces, non-ASCII, leading dot, quotes, backslash, newline); build, unchanged '
             'build (served from cache), clean; plus field-wise comparison of the Cache object written and the one read back; '
             'plus a failing write of the new cache (OSError at the open, OSError at the data write, serialisation error after the '
             'open) with and without a previous cache: previous records back field by field and used by the next build / no file left; '
             'plus builds whose root function records no build_file / subbuild at all (nothing, one is_file, one list_dir) with the '
             'cache file two new directories deep (c/s/cache), optionally followed by the full program, then clean; '
             'plus a second build that keeps only the first root operation (a pure cache hit): the cache file then lists that build\'s outputs',
    'thorough': 'width 3 / two template-valued functions',
}
ASSUMPTIONS = [
    'in the symbolic run gzip+json are the document-store stub (JSON round trip = identity on sanitised values); the real '
    'gzip/json are exercised by the real-OS validations and replays of every run',
    'integers beyond CPython\'s int/str conversion limit (4300 digits) are outside the claim: json refuses them and the build '
    'fails and is rolled back',
]
WITNESSES = {'quick': ['served-from-cache', 'failure-marker-survived', 'created-dirs-survived', 'cache-object-compared', 'cache-write-failed', 'shrunk-build-committed', 'versions-dropped'],
             'thorough': ['served-from-cache']}

# functions that are legitimately re-executed by an unchanged build: the one that failed (r.1) and the caller that caught a
# rejected duplicate (r.3, property C08)
RERUN_OK = {'r.1', 'r.3'}
NAMES = ['plain.txt', 'with space', 'ünï cödé', '.hidden', '名前', 'quo"te\'', 'back\\slash', 'new\nline', ' lead',
         'r\udce9sum\udce9', '\U0001F600.txt']        # incl. a name that is not valid UTF-8 (os.fsdecode of Latin-1 bytes)
MID = {'leaf_kinds': ['none', 'bool', 'int', 'float', 'special', 'str'], 'key_kinds': ['str'],
       'specials': [-0.0, 0.5, float('inf'), 1e300], 'lits': ['true', '', '\U0001F600']}


def families(tier):
    q = [
        {'name': 'e2e', 'params': {'depth': 2, 'width': 1, 'who': 'a'}, 'weight': 2},
        {'name': 'e2e', 'params': {'depth': 1, 'width': 2, 'who': 'bf'}, 'weight': 2},
        {'name': 'e2e', 'params': {'depth': 1, 'width': 1, 'who': 'version'}, 'weight': 1},
        {'name': 'names', 'params': {}, 'weight': 1, 'validate': 24},
        {'name': 'emptyforest', 'params': {'depth': 0, 'width': 0, 'who': 'a'}, 'weight': 1, 'validate': 4},
        # the write of the new cache fails (open, data, or a value json refuses): the previous content is back / no file left
        {'name': 'writefail', 'params': {'depth': 1, 'width': 1, 'who': 'a'}, 'weight': 1, 'validate': 8},
        # the next build asks for fewer root operations (all of them cache hits): the committed cache must describe that build
        {'name': 'shrink', 'params': {'depth': 1, 'width': 1, 'who': 'a'}, 'weight': 1, 'validate': 4},
    ]
    if tier == 'quick':
        return q
    return q + [
        {'name': 'e2e', 'params': {'depth': 2, 'width': 2, 'who': 'a'}, 'weight': 4},
        {'name': 'e2e', 'params': {'depth': 1, 'width': 3, 'who': 'bf'}, 'weight': 4},
    ]


def count_ops(op):
    n = 1
    for s in getattr(op, 'suboperations', []) or []:
        n += count_ops(s)
    return n


def op_same(a, b):
    """field-wise isomorphism of two operation records -> bool | SymBool"""
    if type(a) is not type(b):
        return False
    from .refmodel import json_norm
    # (the in-memory record of a walk holds tuples, its JSON form lists: tuples and lists are the same JSON value)
    conds = [L.eq(a.args, b.args, exact_types=True), L.eq(json_norm(a.return_value), json_norm(b.return_value), exact_types=True),
             a.is_finished == b.is_finished]
    if hasattr(a, 'name'):
        conds += [a.name == b.name, a.exception_type_str == b.exception_type_str]
    else:
        conds += [a.func_name == b.func_name, L.eq(a.kwargs, b.kwargs, exact_types=True), bool(a.raised) == bool(b.raised),
                  bool(a.setup_failed) == bool(b.setup_failed), len(a.suboperations) == len(b.suboperations)]
        if hasattr(a, 'filename'):
            conds += [a.filename == b.filename, a.file_comparison == b.file_comparison,
                      L.eq(a.file_comparison_result, b.file_comparison_result, exact_types=True)]
        if len(a.suboperations) == len(b.suboperations):
            conds += [op_same(x, y) for x, y in zip(a.suboperations, b.suboperations)]
    return L.and_(*conds)


def write_fails(eng, w, d, prog, versions, beh, target_sid, written, cache_mod):
    """'...if writing it fails its previous content is back (or, if there was none, no cache file is left)'"""
    import errno
    prev = eng.choose('prev', 2) == 1
    how = ['gzip-w', 'gzip-data', 'unserialisable'][eng.choose('how', 3)]
    sig = ('writefail', 'prev' if prev else 'first', how)
    eng.path_info.update({'previous_cache': prev, 'failure': how})
    impl1 = None
    if prev:
        impl1, ref1 = d.build(prog, versions=versions, behaviour=beh)
        d.guard_same('first')
        if impl1[0] != 'ok' or not written:
            return
        before = w.fs.snapshot(w.root).get(w.cache)
    c1 = written[-1] if written else None
    beh2 = dict(beh)
    beh2[target_sid] = ['changed', eng.fresh_int('v2')]
    tree_before = w.snap(w.fs)

    def hook(op, args, mutating):
        if op == how and args and args[0] == w.cache:
            raise OSError(errno.ENOSPC, 'No space left on device (injected)', w.cache)
    orig_write = cache_mod.Cache.write
    if how == 'unserialisable':
        # the document cannot be serialised (e.g. an integer json refuses to print): the failure strikes after the file was opened
        def failing_write(self, filename):
            import gzip as _g
            with w.env.gzip.open(filename, 'wt') as f:
                raise ValueError('Exceeds the limit for integer string conversion (injected)')
        cache_mod.Cache.write = failing_write
    else:
        w.env.hooks.append(hook)
    try:
        impl2, _ = d.build_impl_only(prog, versions=versions, behaviour=beh2)
    finally:
        cache_mod.Cache.write = orig_write
        if hook in w.env.hooks:
            w.env.hooks.remove(hook)
    eng.check('C16.failed-write-surfaces', impl2[0] == 'exc', sig, info={'impl': repr(impl2[1])[:200]})
    eng.witness('cache-write-failed')
    if not prev:
        eng.check('C16.no-cache-file-left', w.fs.kind(w.cache) == ABSENT, sig, info={'kind': w.fs.kind(w.cache)})
    else:
        eng.check('C16.previous-cache-back', w.fs.kind(w.cache) == FILE, sig, info={'kind': w.fs.kind(w.cache)})
        if w.fs.kind(w.cache) != FILE:
            return
        c2 = cache_mod.Cache.read_immutable(w.cache)
        conds = [sorted(c1._files.keys()) == sorted(c2._files.keys()), len(c1._subbuilds) == len(c2._subbuilds),
                 L.eq(c1._func_versions, c2._func_versions, exact_types=True), sorted(c1.created_dirs()) == sorted(c2.created_dirs())]
        if conds[0]:
            conds += [op_same(op, c2._files[fn]) for fn, op in c1._files.items()]
        eng.check('C16.previous-cache-content', L.and_(*conds), sig)
        # and it is what the next build uses: the original program is served from it
        impl3, ref3 = d.build(prog, versions=versions, behaviour=beh)
        eng.check('C16.previous-cache-used', impl3[0] == 'ok' and set(d.impl_calls) <= RERUN_OK, sig,
                  info={'calls': d.impl_calls, 'impl': repr(impl3[1])[:200]})
        if impl3[0] == 'ok':
            eng.check('C16.served-value-equals-original', L.eq(impl1[1], impl3[1], exact_types=True), sig)
    eng.sample({'family': 'writefail', 'previous_cache': prev, 'failure': how})


def shrink(eng, w, d, prog, prog2, versions, beh, cache_mod):
    """Build the full program, then a program that only keeps its first root operation (served from the cache): what the
    second commit leaves in the cache file is the record of the second build, not of the first."""
    sig = ('shrink',)
    impl1, ref1 = d.build(prog, versions=versions, behaviour=beh)
    d.guard_same('first')
    if impl1[0] != 'ok':
        return
    impl2, ref2 = d.build(prog2, versions=versions, behaviour={f[0]: beh.get(f[0], 0) for f in prog2.functions})
    d.guard_same('second')
    if impl2[0] != 'ok':
        return
    eng.check('C16.shrink-served-from-cache', not [c for c in d.impl_calls if c != 'r.0.1'], sig, info={'calls': d.impl_calls})
    c2 = cache_mod.Cache.read_immutable(w.cache)
    recorded = sorted(p for p, op in c2._files.items() if not op.raised)
    expected = sorted(d.state.outputs)
    eng.check('C16.cache-describes-an-older-build', recorded == expected, sig,
              info={'outputs in the cache file': [w.rel(p) for p in recorded], 'outputs of the last build': [w.rel(p) for p in expected]})
    eng.check('C16.created-dirs', sorted(c2.created_dirs()) == sorted(d.state.created_dirs), sig,
              info={'read': sorted(c2.created_dirs()), 'expected': sorted(d.state.created_dirs)})
    eng.witness('shrunk-build-committed')
    # a foreign file at a dropped output position is none of clean's business
    dropped = w.p('o/r')
    if w.fs.is_kind(dropped, ABSENT) and w.fs.is_kind(w.p('o'), DIR):
        w.ext_write(dropped, eng.fresh_int('fcid'), eng.fresh_int('fmt', 0, 2 ** 62))
    d.clean()
    d.check_tree('C16.clean', sig)
    eng.sample({'family': 'shrink'})


def harness(eng, fam, P):
    from file_builder import FileBuilder
    from file_builder import cache as cache_mod
    eng.register_literals(J.LITERALS)
    sh = J.Shape(**MID)
    if fam == 'names':
        n1 = NAMES[eng.choose('n1', len(NAMES))]
        n2 = NAMES[(NAMES.index(n1) + 3) % len(NAMES)]
        val = eng.fresh_int('v')
        who = 'a'
    else:
        n1, n2 = 'plain.txt', 'with space'
        val = J.gen_value(eng, 'v', P['depth'], P['width'], sh)
        who = P['who']
    t1, t2 = 'o/d/' + n1, 'o/e/' + n2
    body = [('SB', 'a', {}, [('BF', t1, {'mode': 'ok', 'name': 'bf'}, []), ('SB', 'b', {'mode': 'raise', 'catch': True}, [])]),
            ('BF', t2, {'mode': 'raise_after', 'catch': True, 'name': 'bf2'}, []),
            # a root-level output and a rejected (caught) second attempt at it from inside another operation: the stub record
            # of the rejected attempt carries the same key as the real one
            ('BF', 'o/r', {'mode': 'ok', 'name': 'rootbf'}, []),
            ('SB', 'd', {}, [('BF', 'o/r', {'mode': 'ok', 'catch': True, 'name': 'dup'}, []),
                             ('BF', 'o/r2', {'mode': 'ok', 'name': 'after-dup'}, [])]),
            # the same failing query recorded twice with two exception types (missing, then a regular file)
            ('SB', 'e', {}, [('Q', 'list_dir', 'o/q')]),
            ('BF', 'o/q', {'mode': 'ok', 'name': 'q'}, []),
            ('SB', 'f', {}, [('Q', 'list_dir', 'o/q')]),
            # recorded directory walks in both orders over a tree with nested directories (o, o/d, o/e)
            ('SB', 'g', {}, [('Q', 'walk_bu', 'o'), ('Q', 'walk', 'o')]),
            ('Q', 'is_file', t1)]
    full_body = body
    if fam == 'emptyforest':
        # a committed build that recorded no build_file / subbuild at all (its function only asks questions, or does nothing):
        # the directories made for the cache file are still part of what it recorded
        body = [[], [('Q', 'is_file', t1)], [('Q', 'list_dir', 'o')]][eng.choose('empty_body', 3)]
    shared = {}
    prog = Program(eng, body, shared)
    w = World(eng, ['c', 'c/s', 'o', 'o/d'] if fam == 'emptyforest' else ['c', 'o', 'o/d'],
              cache_rel='c/s/cache' if fam == 'emptyforest' else 'c/cache', sandbox=getattr(eng, 'sandbox', None))
    eng.path_info.update({'value': repr(val)[:200], 'names': [n1, n2], 'who': who})
    beh = {}
    for sid, kind, x in prog.functions:
        beh[sid] = 0
    target_sid = {'a': 'r.0', 'bf': 'r.0.0', 'version': 'r.0'}[who]
    versions = {'a': 1}
    if fam == 'emptyforest':
        pass
    elif who == 'version':
        versions = {'a': val, 'bf': [1, 2.0]}
    else:
        beh[target_sid] = val
    written = []
    orig_write = cache_mod.Cache.write

    def spy_write(self, filename):
        written.append(self)
        return orig_write(self, filename)

    try:
        cache_mod.Cache.write = spy_write
        d = Driver(eng, w)
        extra = {'repr': eng.repr_fn()} if eng.symbolic else None
        w.bind(extra)
        if fam == 'writefail':
            return write_fails(eng, w, d, prog, versions, beh, target_sid, written, cache_mod)
        if fam == 'shrink':
            return shrink(eng, w, d, prog, Program(eng, body[:1] + body[-1:], shared), versions, beh, cache_mod)
        impl1, ref1 = d.build(prog, versions=versions, behaviour=beh)
        # whatever the build recorded (any legal name, any JSON value) must be writable: the commit may not fail where
        # the from-scratch reference succeeds
        eng.check('C16.commit-failed', not (impl1[0] == 'exc' and ref1[0] == 'ok'), (fam, who),
                  info={'exception': repr(impl1[1])[:200], 'names': [n1, n2]})
        d.guard_same('first')
        if impl1[0] != 'ok':
            eng.note('first-build-failed')
            return
        sig = (fam, who)
        # ---- the Cache object that was written vs the one read back
        if written:
            c1 = written[-1]
            c2 = cache_mod.Cache.read_immutable(w.cache)
            eng.witness('cache-object-compared')
            eng.check('C16.build-name', c1.build_name() == c2.build_name(), sig)
            eng.check('C16.created-dirs', sorted(c1.created_dirs()) == sorted(c2.created_dirs()), sig,
                      info={'written': sorted(c1.created_dirs()), 'read': sorted(c2.created_dirs())})
            eng.check('C16.func-versions', L.eq(c1._func_versions, c2._func_versions, exact_types=True), sig)
            eng.check('C16.file-index', sorted(c1._files.keys()) == sorted(c2._files.keys()), sig,
                      info={'written': sorted(c1._files.keys()), 'read': sorted(c2._files.keys())})
            eng.check('C16.subbuild-index', len(c1._subbuilds) == len(c2._subbuilds), sig)
            conds = []
            for fn, op in c1._files.items():
                conds.append(op_same(op, c2._files[fn]))
            # ... and every subbuild record (failure markers included), wherever it sits in the forest
            subs_ok = True
            for k_, op in c1._subbuilds.items():
                other = c2._subbuilds.get(k_)
                if other is None:
                    subs_ok = False
                    break
                conds.append(op_same(op, other))
            eng.check('C16.subbuild-records-indexed', subs_ok, sig)
            eng.check('C16.operation-records', L.and_(*conds), sig)
            # nothing written twice, nothing lost: total number of records reachable from the roots
            roots1 = [o for o in list(c1._files.values()) + list(c1._subbuilds.values())]
            nonroot = set()
            for o in roots1:
                for s in o.suboperations:
                    nonroot.add(id(s))
            n1_ = sum(count_ops(o) for o in roots1 if id(o) not in nonroot)
            roots2 = [o for o in list(c2._files.values()) + list(c2._subbuilds.values())]
            nonroot2 = set()
            for o in roots2:
                for s in o.suboperations:
                    nonroot2.add(id(s))
            n2_ = sum(count_ops(o) for o in roots2 if id(o) not in nonroot2)
            eng.check('C16.record-count', n1_ == n2_, sig, info={'written': n1_, 'read': n2_})
        # ---- unchanged rebuild: everything is served from the cache and equals what was returned
        impl2, ref2 = d.build(prog, versions=versions, behaviour=beh)
        eng.check('C16.rebuild-ok', impl2[0] == 'ok', sig, info={'exc': repr(impl2[1])[:200]})
        eng.check('C16.served-value-equals-original', L.eq(impl1[1], impl2[1], exact_types=True), sig,
                  info={'first': repr(impl1[1])[:300], 'second': repr(impl2[1])[:300]})
        eng.check('C16.nothing-reexecuted-but-failures', set(d.impl_calls) <= RERUN_OK, sig, info={'calls': d.impl_calls})
        eng.witness('served-from-cache')
        if 'exc:Boom' in repr(impl2[1]):
            eng.witness('failure-marker-survived')
        if who == 'version':
            # the next build is given no versions at all: what is stored is what that build was given (absent = None)
            impl3, ref3 = d.build(prog, versions={}, behaviour=beh)
            d.guard_same('no-versions')
            c3 = cache_mod.Cache.read_immutable(w.cache)
            eng.check('C16.func-versions-as-given', len(c3._func_versions) == 0, sig,
                      info={'stored': repr(c3._func_versions)[:200], 'given': '{}'})
            eng.witness('versions-dropped')
        if fam == 'emptyforest' and eng.choose('then_full', 2):
            # the next build does produce outputs: the directories of the cache file stay attributed to the builds
            impl4, ref4 = d.build(Program(eng, full_body, shared), versions=versions, behaviour=None)
            d.guard_same('full-after-empty')
        # ---- clean on the state left by the cached build removes what the builds created
        d.clean()
        d.check_tree('C16.clean', sig)
        eng.witness('created-dirs-survived')
        eng.sample({'family': fam, 'who': who, 'value': J.concretise(val), 'names': [n1, n2]})
    finally:
        cache_mod.Cache.write = orig_write
        w.close()

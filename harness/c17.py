"""C17 finished builders are fenced off, also against a straggler thread racing
with the owner's return."""
import gzip as _gzip
import json as _json

from symx import logic as L
from symx.common import PathAbort
from symx.fs import FILE, ABSENT, DIR
from symx.env import JsonDoc
from symx.sched import Sched, FakeThreading, Deadlock, install
from .world import World
from .program import Boom
from .common import exc_name

LEVEL = 'model_checking'
BUDGET_S = {'quick': 120, 'thorough': 900}
BOUNDS = {
    'quick': 'owner in {root build function, subbuild, build_file} returning or raising (caught by its caller); one straggler thread '
             'calling one of the 12 builder methods on the owner\'s builder; every schedule with at most 3 pre-emptions, yield '
             'point = every library system call and lock acquire; also the straggler started strictly after the close (after the '
             'build, and after the owner\'s function but inside the same build), also when the owner\'s function itself asked the same question '
             '(for reads: any of the three read methods) as its last operation; family published: the straggler first asks the root '
             'builder whether the owner\'s output file exists and calls the owner\'s builder afterwards - once the output is visible the call must be rejected',
    'thorough': 'pre-emption bound 4',
}
ASSUMPTIONS = ['thread switches only at environment calls and lock operations']
WITNESSES = {'quick': ['straggler-rejected', 'straggler-completed-and-recorded', 'straggler-after-close', 'output-seen-published'],
             'thorough': ['straggler-rejected']}

QUERIES = ['is_file', 'is_dir', 'exists', 'list_dir', 'walk', 'get_size', 'declare_read', 'read_binary', 'read_text']
COMPLEX = ['build_file', 'build_file_with_comparison', 'subbuild']
METHODS = QUERIES + COMPLEX
OWNERS = ['root', 'subbuild', 'build_file']


def families(tier):
    P = 3 if tier == 'quick' else 4
    return ([{'name': 'race', 'params': {'P': P, 'methods': COMPLEX}, 'weight': 3},
             {'name': 'race', 'params': {'P': P, 'methods': QUERIES}, 'weight': 3},
             # line-level yield points in the racing family as well (one pre-emption): stores that lost their lock
             {'name': 'race', 'params': {'P': 2, 'lines': True, 'methods': ['is_dir', 'declare_read'], 'owners': ['subbuild', 'build_file'],
                                         'raises': [False]}, 'weight': 3},
             {'name': 'published', 'params': {'P': 2, 'lines': True, 'methods': ['is_dir', 'declare_read', 'subbuild'], 'owners': ['build_file'],
                                              'raises': [False]}, 'weight': 2},
             {'name': 'after-close', 'params': {'P': 0, 'methods': METHODS}, 'weight': 1},
             {'name': 'after-close', 'params': {'P': 0, 'methods': ['is_dir', 'declare_read', 'subbuild', 'build_file'], 'raises': ['base']}, 'weight': 1},
             {'name': 'after-owner', 'params': {'P': 0, 'methods': METHODS, 'owners': ['subbuild', 'build_file']}, 'weight': 1},
             # the owner's function asked the very same question (or, for reads, a sibling of it) as its last operation:
             # a repeat after the close must be rejected like any other call, not answered from the record
             {'name': 'after-close', 'params': {'P': 0, 'methods': QUERIES, 'pre': True}, 'weight': 1},
             {'name': 'after-owner', 'params': {'P': 0, 'methods': QUERIES, 'owners': ['subbuild', 'build_file'], 'pre': True}, 'weight': 1}])


class Interrupt(BaseException):
    """What a build function may be aborted with (KeyboardInterrupt, SystemExit): not an Exception."""


def read_cache_doc(w):
    if w.real:
        try:
            with _gzip.open(w.cache, 'rt') as f:
                return _json.load(f)
        except OSError:
            return None
    n = w.fs.nodes.get(w.cache)
    if n is None or w.fs.kind(w.cache) != FILE or not isinstance(n.payload, JsonDoc):
        return None
    return n.payload.payload


def records(doc):
    """[(type, name-or-filename, owner funcName or None)] of every record in the cache document."""
    out = []

    def rec(op, owner):
        t = op.get('type')
        if t in ('subbuild', 'build_file'):
            for s in op['suboperations']:
                rec(s, op.get('funcName'))
            out.append((t, op.get('filename') or op.get('funcName'), owner))
        else:
            out.append((t, op['args'][0] if op.get('args') else None, owner))
    for r in (doc or {}).get('rootOperations', []):
        rec(r, None)
    return out


def harness(eng, fam, P):
    from file_builder import FileBuilder, FileComparison
    method = P['methods'][eng.choose('method', len(P['methods']))]
    owners = P.get('owners', OWNERS)
    owner = owners[eng.choose('owner', len(owners))]
    owner_raises = bool(eng.choose('owner_raises', 2)) if 'raises' not in P else P['raises'][eng.choose('owner_raises', len(P['raises']))]
    w = World(eng, ['x'], fixed={'in': 'D', 'in/f': 'F'}, sandbox=getattr(eng, 'sandbox', None))
    eng.path_info.update({'method': method, 'owner': owner, 'owner_raises': owner_raises, 'family': fam})
    res = {}
    probe = w.p('in/f') if method in ('get_size', 'declare_read', 'read_binary', 'read_text', 'is_file', 'exists') else w.p('in')
    out = w.p('strag/out')
    try:
        w.bind({'threading': FakeThreading()})
        s = Sched(eng, P['P'], lines=bool(P.get('lines')))
        hook = install(w, s)
        # a logical clock over the library's environment calls: when did the straggler last look at the file system, and
        # when had the owner's API call returned (= its record is certainly closed)?
        clock = {'t': 0, 'strag_obs': None, 'owner_returned': None}

        def tick(op, args, mutating):
            clock['t'] += 1
            me = s.me()
            if me is not None and me.name == 'straggler' and s.running:
                if op == 'open-r' and method in ('read_text', 'read_binary'):
                    # read_* record their observation (the comparison: a stat with METADATA) and only afterwards open the
                    # handle they return: that open is not an observation of the record
                    return
                clock['strag_obs'] = clock['t']
        w.env.hooks.append(tick)

        invoked = []

        def wr(b, fn):
            invoked.append('wr')
            w.user_write(w.fs, fn, 9)
            return 1

        def sbf(b3):
            invoked.append('sb')
            return 5

        def call(b2):
            try:
                if method in QUERIES:
                    r = getattr(b2, method)(probe)
                    if hasattr(r, 'close'):
                        r.close()
                    res['v'] = ('returned', None)
                elif method == 'build_file':
                    res['v'] = ('returned', b2.build_file(out, 'strag', wr))
                elif method == 'build_file_with_comparison':
                    res['v'] = ('returned', b2.build_file_with_comparison(out, FileComparison.HASH, 'strag', wr))
                else:
                    res['v'] = ('returned', b2.subbuild('strag', sbf))
            except RuntimeError as e:
                res['v'] = ('RuntimeError', str(e)[:80])
            except Exception as e:
                res['v'] = ('other:' + exc_name(e), str(e)[:80])

        holder = {}

        def watcher(b2):
            # the straggler first looks, through the root builder, whether the owner's output has been published; a call on
            # the owner's builder that starts after that must be rejected
            try:
                res['seen'] = bool(holder['root'].is_file(w.p('own.out')))
            except Exception as e:
                res['werr'] = exc_name(e)
            call(b2)

        def own_body(b2, fn=None):
            holder['b'] = b2
            if P.get('pre') and method in QUERIES:
                pm = ['declare_read', 'read_binary', 'read_text'] if method in ('declare_read', 'read_binary', 'read_text') else [method]
                pre = pm[eng.choose('pre', len(pm))]
                r0 = getattr(b2, pre)(probe)
                if hasattr(r0, 'close'):
                    r0.close()
                res['pre'] = pre
                eng.path_info['owner_asked_first'] = pre
            if fam == 'race':
                s.spawn(lambda: call(b2), 'straggler')
            if fam == 'published':
                s.spawn(lambda: watcher(b2), 'straggler')
            if fn is not None:
                w.user_write(w.fs, fn, 4)
            if owner_raises == 'base':
                raise Interrupt()           # not an Exception: KeyboardInterrupt / SystemExit style abort of the build
            if owner_raises:
                raise Boom()
            return 1

        def root(b):
            holder['root'] = b
            if owner == 'root':
                return own_body(b)
            try:
                if owner == 'subbuild':
                    r = b.subbuild('own', own_body)
                else:
                    r = b.build_file(w.p('own.out'), 'own', own_body)
            except Boom:
                r = 'caught'
            clock['t'] += 1
            clock['owner_returned'] = clock['t']
            if fam == 'after-owner':
                # the owner's function is over, the build is not: a call on the leaked builder from the same thread
                call(holder['b'])
            return r

        def owner_thread():
            try:
                res['build'] = FileBuilder.build(w.cache, 'n', root)
            except Boom:
                res['build'] = 'build raised (rolled back)'
            except Interrupt:
                res['build'] = 'build aborted by a BaseException'
            if fam == 'after-close':
                call(holder['b'])

        s.spawn(owner_thread, 'owner')
        try:
            s.run_all()
        except Deadlock:
            eng.check('C17.deadlock', False, (fam, owner, method))
            return
        finally:
            w.env.hooks.remove(hook)
            if tick in w.env.hooks:
                w.env.hooks.remove(tick)
            s.close()
        sig = (fam, owner, ('aborts' if owner_raises == 'base' else 'raises') if owner_raises else 'returns', method)
        eng.path_info['schedule'] = s.trace[:8]
        v = res.get('v')
        if v is None and fam != 'published':
            eng.check('C17.straggler-lost', False, sig)
        doc = read_cache_doc(w)
        recs = records(doc)
        own_name = {'root': None, 'subbuild': 'own', 'build_file': 'own'}[owner]
        if method in QUERIES:
            opname = {'declare_read': 'read', 'read_binary': 'read', 'read_text': 'read'}.get(method, method)
            mine = [r for r in recs if r[0] == opname and r[1] == probe]
        elif method == 'subbuild':
            mine = [r for r in recs if r[0] == 'subbuild' and r[1] == 'strag']
        else:
            mine = [r for r in recs if r[0] == 'build_file' and r[1] == out]
        npre = 1 if res.get('pre') and owner != 'root' else 0      # the owner's own record of the same question
        info = {'result': v, 'records_of_the_call': mine, 'schedule': s.trace[:8], 'owner_asked_first': res.get('pre')}
        if fam == 'published':
            # only this family's own obligation (the generic ones are the business of the race family)
            if res.get('seen'):
                eng.witness('output-seen-published')
                eng.check('C17.call-accepted-after-output-published', v is not None and v[0] == 'RuntimeError',
                          sig + (v[0] if v else 'lost',), info=dict(info, seen=True, watcher_error=res.get('werr')))
            eng.sample({'family': fam, 'method': method, 'seen_published': bool(res.get('seen')), 'result': v and v[0]})
            return
        if fam in ('after-close', 'after-owner'):
            eng.witness('straggler-after-close')
            eng.check('C17.call-after-close-not-rejected', v[0] == 'RuntimeError', sig + (v[0],), info=info)
        eng.check('C17.unexpected-exception', v[0] in ('returned', 'RuntimeError'), sig + (v[0],), info=info)
        if v[0] == 'RuntimeError':
            eng.witness('straggler-rejected')
            # rejected: no effect at all
            eng.check('C17.rejected-call-left-a-record', len(mine) <= npre, sig, info=info)
            eng.check('C17.rejected-call-ran-user-function', not invoked, sig, info=dict(info, invoked=list(invoked)))
            if method in ('build_file', 'build_file_with_comparison'):
                eng.check('C17.rejected-call-left-a-file', w.fs.kind(out) == ABSENT, sig, info=info)
                eng.check('C17.rejected-call-left-a-directory', w.fs.kind(w.p('strag')) == ABSENT, sig, info=info)
        elif v[0] == 'returned':
            if fam == 'race' and owner != 'root' and method in QUERIES and clock['owner_returned'] is not None \
                    and clock['strag_obs'] is not None:
                # an accepted query whose look at the file system happened after the owner's call had returned: an
                # observation attached to a closed record
                eng.check('C17.observation-after-close-attached', clock['strag_obs'] < clock['owner_returned'], sig,
                          info=dict(info, observed_at=clock['strag_obs'], owner_call_returned_at=clock['owner_returned']))
            # completed before the close: it is part of the owner's record (queries on the root builder are not recorded)
            if owner != 'root' or method in COMPLEX:
                if not (owner_raises and owner == 'build_file' and False):
                    eng.check('C17.completed-call-missing-from-record', len(mine) == 1 + npre and mine[-1][2] == own_name, sig, info=info)
            if method in ('build_file', 'build_file_with_comparison'):
                eng.check('C17.completed-build_file-has-no-file', w.fs.kind(out) == FILE, sig, info=info)
            eng.witness('straggler-completed-and-recorded')
        eng.sample({'family': fam, 'owner': owner, 'owner_raises': owner_raises, 'method': method, 'result': v[0],
                    'schedule': s.trace[:8]})
    finally:
        Sched.cur = None
        w.close()

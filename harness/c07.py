"""C07 cache identity is JSON equality of name, path and arguments; the callee
receives the round-tripped copies."""
import os

from symx import logic as L
from symx.bind import bind_names
from .world import World
from . import jsonval as J

LEVEL = 'model_checking'
BUDGET_S = {'quick': 150, 'thorough': 1200}
BOUNDS = {
    'quick': 'two calls (name, [path,] args, kwargs): names from {f, g}; in the arity families 0-2 positional leaves (literal "k", free string, integer) with keyword k on one side, both sides or k / j; otherwise 1 positional argument template depth <= 1 width <= 2 '
             '(leaves None / bool / unbounded int / integer-valued float / specials -0.0 inf / string atoms; dict keys '
             'str/int/bool/None/float) and optionally one keyword argument; subbuild pairs in the same build (duplicate '
             'RuntimeError iff same entry) and in consecutive builds (hit iff same entry); build_file pairs in consecutive '
             'builds with 8 spellings of the path (enumerated, not symbolic)',
    'thorough': 'two positional arguments, depth <= 2 for one of them',
}
ASSUMPTIONS = [
    'strings are ordered atoms (nothing in the identity computation looks inside a string)',
    'path spelling is a finite enumeration (absolute, relative, ./, //, trailing /, x/../, bytes, PathLike), not a solver decision',
]
STUBS = ['repr (json_util) -> proxy-aware repr', 'file system / gzip / json as in every FS harness']
WITNESSES = {'quick': ['same-entry', 'different-entry', 'callee-got-roundtripped-copy', 'spelling-variant-hit'],
             'thorough': ['same-entry', 'different-entry']}

MID = {'leaf_kinds': ['none', 'bool', 'int', 'float', 'special', 'str'], 'key_kinds': ['str', 'int', 'bool', 'none', 'float'],
       'specials': [-0.0, float('inf')], 'lits': ['true', '']}
SLIM = {'leaf_kinds': ['none', 'bool', 'int', 'float', 'str'], 'key_kinds': ['str', 'int', 'bool'], 'specials': [], 'lits': ['true']}
TINY = {'leaf_kinds': ['int'], 'key_kinds': ['str', 'int'], 'specials': [], 'lits': ['true']}
ARITY = {'leaf_kinds': ['int', 'str'], 'key_kinds': ['str'], 'specials': [], 'lits': ['k', 'j']}
FALSY = {'leaf_kinds': ['none', 'bool', 'int', 'str'], 'key_kinds': ['str'], 'specials': [], 'lits': ['']}
# dict keys that are special floats, both infinities among them (their key strings are JSON keywords), next to those strings
INFKEYS = {'leaf_kinds': ['int'], 'key_kinds': ['float', 'str'], 'specials': [-0.0, float('inf'), -float('inf')], 'lits': ['Infinity', '-Infinity']}
SPELLINGS = ['abs', 'rel', 'dot', 'slashes', 'trailing', 'dotdot', 'bytes', 'pathlike']


def families(tier):
    q = [
        {'name': 'sb-same-build', 'params': {'depth': 1, 'width': 1, 'shape': MID, 'kw': False}, 'weight': 3},
        {'name': 'sb-same-build', 'params': {'depth': 0, 'width': 0, 'shape': SLIM, 'kw': True}, 'weight': 1},
        {'name': 'sb-next-build', 'params': {'depth': 1, 'width': 1, 'shape': SLIM, 'kw': False}, 'weight': 2},
        {'name': 'sb-same-build', 'params': {'depth': 1, 'width': 2, 'shape': TINY, 'kw': False, 'containers': ['dict']}, 'weight': 3},
        {'name': 'bf-next-build', 'params': {'depth': 0, 'width': 0, 'shape': SLIM, 'kw': True}, 'weight': 2},
        {'name': 'bf-cwd', 'params': {'depth': 0, 'width': 0, 'shape': TINY, 'kw': False}, 'weight': 1},
        {'name': 'bf-next-build', 'params': {'depth': 1, 'width': 1, 'shape': TINY, 'kw': False, 'containers': ['dict'], 'spellings': ['abs']}, 'weight': 1},
        # build_file compares arguments with is_equal (not through the hashable form): lists, empty containers and the
        # falsy leaves against each other
        {'name': 'bf-next-build', 'params': {'depth': 1, 'width': 1, 'shape': FALSY, 'kw': False, 'spellings': ['abs']}, 'weight': 2},
        # 0-2 positional arguments next to keyword arguments (a positional string may spell the keyword's name)
        {'name': 'sb-same-build', 'params': {'depth': 0, 'width': 0, 'shape': ARITY, 'kw': True, 'arity': True}, 'weight': 1},
        {'name': 'sb-same-build', 'params': {'depth': 1, 'width': 1, 'shape': INFKEYS, 'kw': False, 'containers': ['dict'], 'infkeys': True}, 'weight': 1},
        {'name': 'sb-next-build', 'params': {'depth': 1, 'width': 2, 'shape': INFKEYS, 'kw': False, 'containers': ['dict'], 'infkeys': True}, 'weight': 1},
        {'name': 'sb-next-build', 'params': {'depth': 0, 'width': 0, 'shape': ARITY, 'kw': True, 'arity': True}, 'weight': 1},
        {'name': 'bf-next-build', 'params': {'depth': 0, 'width': 0, 'shape': ARITY, 'kw': True, 'arity': True, 'spellings': ['abs']}, 'weight': 1},
    ]
    if tier == 'quick':
        return q
    return q + [
        {'name': 'sb-same-build', 'params': {'depth': 1, 'width': 2, 'shape': MID, 'kw': True}, 'weight': 5},
        {'name': 'sb-next-build', 'params': {'depth': 1, 'width': 2, 'shape': SLIM, 'kw': True}, 'weight': 4},
        {'name': 'bf-next-build', 'params': {'depth': 1, 'width': 1, 'shape': SLIM, 'kw': True}, 'weight': 4},
        {'name': 'sb-same-build', 'params': {'depth': 2, 'width': 1, 'shape': SLIM, 'kw': False}, 'weight': 4},
    ]


class _PL(os.PathLike):
    def __init__(self, p):
        self.p = p

    def __fspath__(self):
        return self.p


def spell(w, rel, how):
    a = w.p(rel)
    if how == 'abs':
        return a
    if how == 'rel':
        return rel
    if how == 'dot':
        return './' + rel
    if how == 'slashes':
        return w.root + '//' + rel
    if how == 'trailing':
        return a + '/'
    if how == 'dotdot':
        return w.root + '/zz/../' + rel
    if how == 'bytes':
        return a.encode()
    return _PL(a)


def harness(eng, fam, P):
    from file_builder import FileBuilder
    eng.register_literals(J.LITERALS)
    shp = dict(P['shape'])
    if P.get('containers'):
        shp['containers'] = P['containers']
    sh = J.Shape(**shp)
    names = ['f', 'g']
    n1 = 'f'
    n2 = names[eng.choose('name2', 2)]
    a1 = J.gen_value(eng, 'a1', P['depth'], P['width'], sh)
    a2 = J.gen_value(eng, 'a2', P['depth'], P['width'], sh)
    args1, args2 = [a1], [a2]
    if P.get('arity'):
        # a variable number of positional arguments (strings that may spell a keyword name included) next to keyword
        # arguments: f('k', 3) and f(k=3) are different entries
        def pos(tag):
            k = eng.choose('pk' + tag, 3)
            return eng.lit('k') if k == 0 else (eng.fresh_str('ps' + tag) if k == 1 else eng.fresh_int('pi' + tag))
        args1 = [pos('1_%d' % i) for i in range(eng.choose('n1', 3))]
        args2 = [pos('2_%d' % i) for i in range(eng.choose('n2', 3))]
    kw1, kw2 = {}, {}
    if P.get('kw'):
        kk = eng.choose('kwshape', 5 if P.get('arity') else 3)          # none / same key / different keys / only call 1 / only call 2
        kwkinds = ['int'] if P.get('arity') else ['none', 'bool', 'int', 'float', 'str']
        if kk in (1, 2, 3):
            kw1 = {'k': J.gen_leaf(eng, 'kw1', kwkinds, sh)}
        if kk in (1, 2, 4):
            kw2 = {('j' if kk == 2 else 'k'): J.gen_leaf(eng, 'kw2', kwkinds, sh)}
    w = World(eng, [], fixed={'o': 'D'}, sandbox=getattr(eng, 'sandbox', None))
    eng.path_info.update({'call1': repr((n1, args1, kw1))[:200], 'call2': repr((n2, args2, kw2))[:200]})
    calls = []
    received = []

    def sb(b, *args, **kw):
        calls.append('sb')
        received.append((args, kw))
        return 0

    def bf(b, fn, *args, **kw):
        calls.append('bf')
        received.append((args, kw))
        w.user_write(w.fs, fn, 5)
        return 0

    try:
        w.bind({'repr': eng.repr_fn()} if eng.symbolic else None)
        e1 = [J.spec_roundtrip(eng, x) for x in args1], J.spec_roundtrip(eng, kw1)
        e2 = [J.spec_roundtrip(eng, x) for x in args2], J.spec_roundtrip(eng, kw2)
        same_args = L.and_(J.spec_equal(e1[0], e2[0]), J.spec_equal(e1[1], e2[1]))
        sig = (fam,)
        if fam == 'sb-same-build':
            out = {}

            def root(b):
                b.subbuild(n1, sb, *args1, **kw1)
                try:
                    b.subbuild(n2, sb, *args2, **kw2)
                    out['dup'] = False
                except RuntimeError:
                    out['dup'] = True
                return 0
            FileBuilder.build(w.cache, 'n', root)
            same = L.and_(n1 == n2, same_args)
            observed = out['dup']
            eng.check('C07.duplicate-iff-same-entry', same if observed else L.not_(same), sig + ('dup' if observed else 'distinct',),
                      info={'call1': eng.path_info['call1'], 'call2': eng.path_info['call2'], 'duplicate_rejected': observed})
            eng.check('C07.function-called-once-per-entry', len(calls) == (1 if observed else 2), sig)
        elif fam == 'sb-next-build':
            FileBuilder.build(w.cache, 'n', lambda b: b.subbuild(n1, sb, *args1, **kw1))
            k = len(calls)
            FileBuilder.build(w.cache, 'n', lambda b: b.subbuild(n2, sb, *args2, **kw2))
            observed = len(calls) == k             # hit: not invoked again
            same = L.and_(n1 == n2, same_args)
            eng.check('C07.hit-iff-same-entry', same if observed else L.not_(same), sig + ('hit' if observed else 'miss',),
                      info={'call1': eng.path_info['call1'], 'call2': eng.path_info['call2'], 'hit': observed})
        elif fam == 'bf-cwd':
            # the same relative spelling under two working directories: the same entry iff the directory is the same
            rel = ['o/t', './o/t', 'o//t'][eng.choose('relspelling', 3)]
            rel2 = rel if eng.choose('samespelling', 2) == 0 else 'o/t'
            other = eng.choose('othercwd', 2)
            w.fs.add_dir(w.p('q'))
            w.fs.add_dir(w.p('q/o'))
            if not w.real:
                pass
            cwd1 = w.root
            cwd2 = w.p('q') if other else w.root
            w.fs.cwd = cwd1
            FileBuilder.build(w.cache, 'n', lambda b: b.build_file(rel, n1, bf, *args1, **kw1))
            k = len(calls)
            w.fs.cwd = cwd2
            FileBuilder.build(w.cache, 'n', lambda b: b.build_file(rel2, n2, bf, *args2, **kw2))
            w.fs.cwd = cwd1
            observed = len(calls) == k
            same = L.and_(n1 == n2, not other, same_args)
            how = 'cwd-%s' % ('other' if other else 'same')
            eng.check('C07.hit-iff-same-entry', same if observed else L.not_(same), sig + ('hit' if observed else 'miss', how),
                      info={'call1': eng.path_info['call1'], 'call2': eng.path_info['call2'], 'hit': observed, 'spelling': rel2, 'cwd': how})
            exp_path = (w.p('q/o/t') if other else w.p('o/t'))
            eng.check('C07.relative-path-resolved-against-cwd', w.fs.kind(exp_path) == 1, sig + (how,),
                      info={'expected file': exp_path})
            if observed and rel2 != 'o/t':
                eng.witness('spelling-variant-hit')
        else:
            sp = P.get('spellings', SPELLINGS)
            how = sp[eng.choose('spelling', len(sp))]
            other = eng.choose('otherpath', 2)
            eng.path_info['spelling'] = how
            p1 = w.p('o/t')
            p2 = spell(w, 'o/t' if not other else 'o/u', how)
            FileBuilder.build(w.cache, 'n', lambda b: b.build_file(p1, n1, bf, *args1, **kw1))
            k = len(calls)
            FileBuilder.build(w.cache, 'n', lambda b: b.build_file(p2, n2, bf, *args2, **kw2))
            observed = len(calls) == k
            same = L.and_(n1 == n2, not other, same_args)
            eng.check('C07.hit-iff-same-entry', same if observed else L.not_(same), sig + ('hit' if observed else 'miss', how),
                      info={'call1': eng.path_info['call1'], 'call2': eng.path_info['call2'], 'hit': observed, 'spelling': how})
            if observed and how != 'abs':
                eng.witness('spelling-variant-hit')
        eng.witness('same-entry' if observed else 'different-entry')
        # the callee received the round-tripped copies (exact concrete types)
        exp = [e1, e2]
        idx = 0
        for (args, kw) in received:
            e = exp[idx]          # the first execution is call 1, a second one (if any) is call 2
            ok = L.and_(J.same(list(args), e[0]), J.same(kw, e[1]))
            eng.check('C07.callee-arguments-roundtripped', ok, sig, info={'received': repr((args, kw))[:200]})
            eng.witness('callee-got-roundtripped-copy')
            idx += 1
        eng.sample({'family': fam, 'call1': [n1, J.concretise(args1), J.concretise(kw1)], 'call2': [n2, J.concretise(args2), J.concretise(kw2)],
                    'same_entry_observed': observed})
    finally:
        w.close()

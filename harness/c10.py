"""C10 build_file contract: output appears atomically, failure leaves nothing."""
import errno
import posixpath

from symx import logic as L
from symx.fs import ABSENT, FILE, DIR
from .world import World
from .common import veq, exc_name
from .refmodel import RefState, ref_build, RefBuilder
from .program import Boom, NotJson
from .mutate import mutate
from . import jsonval as J

LEVEL = 'model_checking'
BUDGET_S = {'quick': 120, 'thorough': 1200}
BOUNDS = {
    'quick': 'one build_file on a/b/c/t (target depth 3) and a/t (depth 1): target and every ancestor symbolic (absent / '
             'foreign file / foreign directory with or without content) or stale (output / created directory of a '
             'previous build, optionally tampered); modes ok / ok returning the empty tuple / ok returning a dict with NaN, -inf, +inf, None, True, int, float and str keys / raise before write / raise after write / no create / non-JSON falsy return values (empty set, empty bytes, empty frozenset, range(0)) / '
             'non-JSON return; mkdir made to fail (OSError ENAMETOOLONG, or the ValueError of a name with a NUL byte) at each level; 4 spellings of the path; previous output at an '
             'ancestor position of the new target (a, a/b, a/b/c) with a deeper mkdir failing, optionally followed by a failing root',
    'thorough': 'plus a sibling output in the same new directory (reservation counting) and two prefixes',
}
ASSUMPTIONS = ['an over-long directory component is modelled by making mkdir of that directory raise OSError(ENAMETOOLONG); an over-long '
               'target file name is a real 256-character name (the model file system enforces NAME_MAX like the kernel); a target name '
               'with an embedded NUL byte makes every model os call raise ValueError, as CPython does']
WITNESSES = {'quick': ['success', 'user-failure', 'mkdir-fault', 'stale-target', 'long-name-target'], 'thorough': ['success', 'mkdir-fault']}

CHAIN = ['a', 'a/b', 'a/b/c', 'a/b/c/t']
UNI = ['a', 'a/t', 'a/b', 'a/b/z', 'a/b/c', 'a/b/c/t']
MODES = ['ok', 'raise_before', 'raise_after', 'no_create', 'nonjson', 'raise_TypeError', 'raise_RuntimeError', 'raise_FileNotFoundError']
SPECIAL_KEYS = [(float('nan'), 1), (-float('inf'), 2), (float('inf'), 3), (None, 4), (True, 5), (2, 6), (1.5, 7), ('s', 8)]
SPECIAL_KEYS_JSON = {'NaN': 1, '-Infinity': 2, 'Infinity': 3, 'null': 4, 'true': 5, '2': 6, '1.5': 7, 's': 8}
NONJSON_FALSY = {'nonjson_set': set, 'nonjson_bytes': bytes, 'nonjson_frozenset': frozenset, 'nonjson_range': lambda: range(0)}
SPELL = ['abs', 'rel', 'dotdot', 'slashes']


def families(tier):
    q = [
        {'name': 'fresh', 'params': {'target': 'a/b/c/t', 'modes': MODES, 'faults': [None, 'a', 'a/b', 'a/b/c']}, 'weight': 3},
        {'name': 'fresh', 'params': {'target': 'a/b/c/t', 'modes': ['ok', 'raise_before'], 'faults': ['a', 'a/b', 'a/b/c'],
                                     'fault_excs': ['ValueError']}, 'weight': 1},
        {'name': 'fresh', 'params': {'target': 'a/t', 'modes': MODES, 'faults': [None, 'a']}, 'weight': 1},
        # return values that are not JSON but falsy (an empty set, b'', ...), and the empty tuple (JSON: normalised to [])
        {'name': 'fresh', 'params': {'target': 'a/b/c/t', 'modes': sorted(NONJSON_FALSY) + ['ok_empty_tuple', 'ok_special_keys'], 'faults': [None]}, 'weight': 1},
        {'name': 'stale', 'params': {'target': 'a/b/c/t', 'modes': sorted(NONJSON_FALSY) + ['ok_empty_tuple'], 'faults': [None],
                                     'mut_kinds': ['none', 'delete']}, 'weight': 1},
        # the target's own file name is over-long (every stat / open of it fails with ENAMETOOLONG)
        {'name': 'fresh', 'params': {'target': 'a/b/c/t', 'long_name': True, 'modes': MODES, 'faults': [None]}, 'weight': 1},
        {'name': 'fresh', 'params': {'target': 'a/b/c/t', 'nul_name': True, 'modes': ['ok', 'no_create', 'raise_before', 'raise_after'], 'faults': [None]}, 'weight': 1},
        {'name': 'stale', 'params': {'target': 'a/b/c/t', 'long_name': True, 'old_targets': ['a/b/c/t', 'a/b'], 'modes': ['ok', 'no_create', 'raise_before'],
                                     'faults': [None], 'mut_kinds': ['none']}, 'weight': 1},
        {'name': 'stale', 'params': {'target': 'a/b/c/t', 'modes': MODES, 'faults': [None, 'a/b/c']}, 'weight': 3},
        {'name': 'fresh', 'params': {'target': 'a/b/c/t', 'modes': ['ok', 'raise_before', 'raise_after', 'no_create'], 'faults': [None],
                                     'nested': True}, 'weight': 2},
        # the previous build's output sits at an ancestor position of the new target (file -> directory swap), then a deeper
        # mkdir fails or the function fails
        {'name': 'stale', 'params': {'target': 'a/b/c/t', 'old_targets': ['a/b', 'a/b/c', 'a'], 'modes': ['ok', 'raise_before', 'no_create'],
                                     'faults': [None, 'a/b', 'a/b/c'], 'root_raises': True, 'mut_kinds': ['none', 'write']}, 'weight': 3},
        # the previous build's output sat in a hand-made directory (a or a/b) that is removed as a whole before the next build,
        # whose target lies below the old output's position
        {'name': 'stale', 'params': {'target': 'a/b/c/t', 'old_targets': ['a/b', 'a/b/c'], 'modes': ['raise_before', 'raise_after', 'ok'],
                                     'faults': [None], 'mut_kinds': ['rmtree'], 'mut_paths10': ['a', 'a/b']}, 'weight': 1},
        {'name': 'stale', 'params': {'target': 'a/b/c/t', 'modes': ['ok', 'raise_before', 'raise_after'], 'faults': [None, 'a/b/c'],
                                     'sibling': 'prefix', 'root_raises': True, 'mut_paths': ['a/b/cc/z', 'a/b/c']}, 'weight': 2},
    ]
    if tier == 'quick':
        return q
    return q + [
        {'name': 'stale', 'params': {'target': 'a/b/c/t', 'modes': MODES, 'faults': [None, 'a', 'a/b', 'a/b/c'], 'sibling': True}, 'weight': 4},
        {'name': 'fresh', 'params': {'target': 'a/b/c/t', 'modes': MODES, 'faults': [None, 'a/b'], 'sibling': True}, 'weight': 3},
    ]


def spell(w, rel, how):
    if how == 'abs':
        return w.p(rel)
    if how == 'rel':
        return rel
    if how == 'dotdot':
        head, tail = posixpath.split(rel)
        return w.p(head) + '/../' + posixpath.basename(head) + '/' + tail if head else w.p('x/../' + rel)
    return w.root + '//' + rel.replace('/', '//', 1)


class Run:
    """The user program, written once and run against the real builder and the reference builder."""

    def __init__(self, w, fs, target, mode, content, how, sibling, name='f', nested=None):
        self.w, self.fs = w, fs
        self.name = name
        self.nested = nested
        self.root_raises = False
        self.target, self.mode, self.content, self.how, self.sibling = target, mode, content, how, sibling
        self.obs = {}
        self.raised = None
        self.calls = 0

    def func(self, b, fn):
        self.calls += 1
        if self.nested:
            # a nested build_file in the same new directory chain that fails and is caught here
            def nf(b2, fn2):
                if self.nested == 'after':
                    self.w.user_write(self.fs, fn2, 55)
                raise Boom()
            try:
                b.build_file(self.w.p(posixpath.dirname(self.target) + '/nested/n'), 'nested', nf)
            except Boom:
                pass
        self.obs['fn'] = fn
        self.obs['absent_at_start'] = self.fs.kind(fn) == ABSENT
        self.obs['virt_in'] = (b.is_file(fn), b.exists(fn))
        if self.mode == 'raise_before':
            self.raised = Boom()
            raise self.raised
        if self.mode.startswith('raise_') and self.mode not in ('raise_before', 'raise_after'):
            # a user exception of a type the library itself raises and handles
            self.raised = {'raise_TypeError': TypeError, 'raise_RuntimeError': RuntimeError,
                           'raise_FileNotFoundError': FileNotFoundError}[self.mode]('raised by the user function')
            raise self.raised
        if self.mode != 'no_create':
            self.w.user_write(self.fs, fn, self.content)
        if self.mode == 'raise_after':
            self.raised = Boom()
            raise self.raised
        if self.mode == 'nonjson':
            return NotJson()
        if self.mode in NONJSON_FALSY:
            # not JSON either - and falsy, like the None / [] / {} most functions return
            return NONJSON_FALSY[self.mode]()
        if self.mode == 'ok_empty_tuple':
            return ()
        if self.mode == 'ok_special_keys':
            # every kind of dict key JSON stringifies (the float keys include both infinities and NaN)
            return dict(SPECIAL_KEYS)
        return (1, (2, {'k': (3,)}))

    def root(self, b):
        w = self.w
        t = w.p(self.target)
        if self.sibling == 'prefix':
            # an output in a sibling directory whose name has the target's directory name as a prefix (a/b/c vs a/b/cc)
            try:
                b.build_file(w.p(posixpath.dirname(self.target) + 'c/old'), 'sibp', lambda b2, fn: w.user_write(self.fs, fn, 78))
            except Exception as e:
                self.obs['sib'] = exc_name(e)
        elif self.sibling:
            try:
                b.build_file(w.p(posixpath.dirname(self.target) + '/sib'), 'sib', lambda b2, fn: w.user_write(self.fs, fn, 77))
            except Exception as e:
                self.obs['sib'] = exc_name(e)
        try:
            path = t if self.fs is w.ref else spell(w, self.target, self.how)
            self.obs['ret'] = b.build_file(path, self.name, self.func)
            self.obs['outcome'] = 'ok'
        except Exception as e:
            self.obs['outcome'] = exc_name(e)
            self.obs['exc'] = e
        self.obs['real_target'] = self.fs.kind(t)
        self.obs['parents_ok'] = all(self.fs.kind(w.p(d)) == DIR for d in CHAIN[:-1] if self.target.startswith(d + '/'))
        if self.obs['outcome'] == 'ok':
            n = self.fs.lookup(t) if hasattr(self.fs, 'lookup') else None
            self.obs['real_cid'] = n.cid if n is not None else self.fs.read_cid(t)
        virt = {}
        for rel in CHAIN + ['a/t'] + ([self.target] if self.target not in CHAIN + ['a/t'] else []):
            p = w.p(rel)
            virt[rel] = [b.is_file(p), b.is_dir(p)]
        self.obs['virt'] = virt
        if self.root_raises:
            # the build as a whole fails afterwards: whatever the call created must be gone after the rollback too
            raise Boom()
        return [self.obs['outcome'], virt]


LONG = 'T' * 256        # longer than NAME_MAX: stat / open / mkdir of such a name fail with ENAMETOOLONG


def harness(eng, fam, P):
    target = P['target']
    if P.get('long_name'):
        target = posixpath.dirname(target) + '/' + LONG
    if P.get('nul_name'):
        # a file name with an embedded NUL byte: every os call on it raises ValueError (not OSError)
        target = posixpath.dirname(target) + '/t\0x'
        P = dict(P, long_name=True)
    mode = P['modes'][eng.choose('mode', len(P['modes']))]
    fault = P['faults'][eng.choose('fault', len(P['faults']))]
    how = SPELL[eng.choose('spell', len(SPELL))]
    content = eng.fresh_int('content')
    w = World(eng, UNI, sandbox=getattr(eng, 'sandbox', None))
    eng.path_info.update({'mode': mode, 'fault': fault, 'spelling': how, 'target': target.replace(LONG, '<256 chars>')})
    try:
        from file_builder import FileBuilder
        w.bind()
        state = RefState()
        if fam == 'stale':
            # a previous build that created the target (and its directories) successfully
            old = target
            if P.get('old_targets'):
                old = P['old_targets'][eng.choose('old_target', len(P['old_targets']))]
                eng.path_info['old_target'] = old
            r0i = Run(w, w.fs, old, 'ok', eng.fresh_int('content0'), 'abs', P.get('sibling'), 'f0')
            r0r = Run(w, w.ref, old, 'ok', r0i.content, 'abs', P.get('sibling'), 'f0')
            try:
                FileBuilder.build(w.cache, 'n', r0i.root)
                ok = True
            except Exception:
                ok = False
            ref_build(w.ref, w.cache, state, r0r.root)
            if ok and r0i.obs.get('outcome') == 'ok':
                eng.witness('stale-target')
            mutate(eng, w, 'm', P.get('mut_kinds') or ['none', 'delete', 'write', 'rmtree', 'file2dir'], P.get('mut_paths10') or ['a/b/c/t', 'a/b/c', 'a/b/z', 'a/b'])
        nested = [None, 'before', 'after'][eng.choose('nested', 3)] if P.get('nested') else None
        eng.path_info['nested'] = nested
        sib2 = P.get('sibling')
        root_raises = bool(eng.choose('root_raises', 2)) if P.get('root_raises') else False
        eng.path_info['root_raises'] = root_raises
        prev_created = list(state.created_dirs) if w.ref.kind(w.cache) == FILE else []
        ri = Run(w, w.fs, target, mode, content, how, sib2, nested=nested)
        rr = Run(w, w.ref, target, mode, content, how, sib2, nested=nested)
        ri.root_raises = rr.root_raises = root_raises
        fault_path = w.p(fault) if fault else None
        fired = []
        ref_fault_path = fault_path
        if P.get('long_name') and fault_path is None:
            # the reference for a target whose own name is too long: the call fails without any effect, as if creating
            # its innermost parent directory had failed
            ref_fault_path = w.p(posixpath.dirname(target))
        # how creating that directory fails: an OSError (over-long name), or the ValueError CPython raises for a name with
        # an embedded NUL byte
        fexc = 'OSError'
        if fault_path and P.get('fault_excs'):
            fexc = P['fault_excs'][eng.choose('fault_exc', len(P['fault_excs']))]
            eng.path_info['fault_exception'] = fexc
        if fault_path:
            def hook(op, args, mutating):
                if op == 'mkdir' and args[0] == fault_path:
                    fired.append(1)
                    if fexc == 'ValueError':
                        raise ValueError('embedded null byte (injected)')
                    raise OSError(errno.ENAMETOOLONG, 'File name too long (injected)', fault_path)
            w.env.hooks.append(hook)
        # can the call get as far as calling the function?  (every ancestor of the target absent or a directory)
        chain_free = all(w.fs.kind(w.p(d_)) in (ABSENT, DIR) for d_ in CHAIN[:-1] if target.startswith(d_ + '/'))
        try:
            vi = FileBuilder.build(w.cache, 'n', ri.root)
            impl = ('ok', vi)
        except Exception as e:
            impl = ('exc', e)
        finally:
            w.env.hooks[:] = []
        ref = ref_build_with_fault(w, state, rr, ref_fault_path, fexc)
        sig = (fam, target.replace(LONG, '<256 chars>'), mode, 'fault:%s' % fault)
        oi, orf = ri.obs, rr.obs
        if fired:
            eng.witness('mkdir-fault')
        # ---- agreement with the reference (exception class, virtual view right after the call, final tree)
        eng.check('C10.build-outcome', impl[0] == ref[0], sig, info={'impl': repr(impl[1])[:200], 'ref': repr(ref[1])[:200]})
        if True:
            if P.get('long_name'):
                # which exception surfaces depends on where the over-long name is first noticed: only "it fails" is required
                eng.check('C10.long-name-target-must-fail', oi.get('outcome') not in (None, 'ok'), sig, info={'impl': oi.get('outcome')})
                eng.witness('long-name-target')
            else:
                eng.check('C10.outcome-class', oi.get('outcome') == orf.get('outcome'), sig + (oi.get('outcome'), orf.get('outcome')),
                          info={'impl': oi.get('outcome'), 'ref': orf.get('outcome')})
            for rel in oi['virt']:
                eng.check('C10.virtual-view-after-call', oi['virt'][rel] == orf['virt'][rel],
                          sig + (rel, str(oi['virt'][rel]), str(orf['virt'][rel])),
                          info={'path': rel, 'impl [is_file,is_dir]': oi['virt'][rel], 'ref': orf['virt'][rel]})
        if impl[0] == 'exc':
            # rolled back: directories the previous commit recorded as created may reappear (with their ancestors)
            for d_ in sorted(prev_created, key=len):
                todo = []
                q = d_
                while w.ref.kind(q) == ABSENT and w.fs.kind(q) == DIR:
                    todo.append(q)
                    q = posixpath.dirname(q)
                if w.ref.kind(q) == DIR:
                    for q in reversed(todo):
                        w.ref.add_dir(q)
        a, b = w.snap(w.fs), w.snap(w.ref)
        for p in sorted(set(a) | set(b)):
            ka = a[p][0] if p in a else '-'
            kb = b[p][0] if p in b else '-'
            eng.check('C10.final-tree', ka == kb, sig + (w.rel(p), ka, kb), info={'path': w.rel(p), 'impl': ka, 'ref': kb})
        # ---- the contract itself, on the implementation's observations
        if oi.get('outcome') == 'ok':
            eng.witness('success')
            eng.check('C10.target-is-file', oi['real_target'] == FILE, sig)
            eng.check('C10.target-content', L.eq(oi['real_cid'], content), sig)
            eng.check('C10.parents-exist', oi.get('parents_ok') is True, sig)
            eng.check('C10.function-got-absolute-normalised-path', oi.get('fn') == w.p(target), sig + (how,), info={'fn': oi.get('fn')})
            eng.check('C10.target-absent-at-start', oi.get('absent_at_start') is True and oi.get('virt_in') == (False, False), sig,
                      info={'absent_at_start': oi.get('absent_at_start'), 'virt_in': oi.get('virt_in')})
            ret = oi['ret']
            if mode == 'ok_empty_tuple':
                eng.check('C10.return-json-normalised', type(ret) is list and ret == [], sig, info={'ret': repr(ret)})
            elif mode == 'ok_special_keys':
                eng.check('C10.return-json-normalised', type(ret) is dict and sorted(ret.items()) == sorted(SPECIAL_KEYS_JSON.items()), sig,
                          info={'ret': repr(ret), 'json': repr(SPECIAL_KEYS_JSON)})
            else:
                eng.check('C10.return-json-normalised',
                          ret == [1, [2, {'k': [3]}]] and type(ret) is list and type(ret[1]) is list and
                          type(ret[1][1]['k']) is list, sig, info={'ret': repr(ret)})
        elif oi.get('outcome') is not None:
            if P.get('long_name') and fault_path is None and mode.startswith('raise') and fam == 'fresh' and chain_free:
                # nothing prevents the call itself (the parents can be created, the target is absent): the function runs and
                # it is its own exception that comes back
                eng.check('C10.function-not-called', ri.calls >= 1, sig, info={'outcome': oi.get('outcome')})
            if ri.raised is not None:
                eng.witness('user-failure')
                eng.check('C10.same-exception-object', oi.get('exc') is ri.raised, sig)
            if ri.calls:
                # the function was entered: whatever it did, the target is gone
                eng.check('C10.target-absent-after-failure', oi['real_target'] == ABSENT, sig + (oi.get('outcome'),),
                          info={'real kind of target right after the call': oi['real_target']})
                eng.check('C10.target-invisible-after-failure', oi['virt'][target] == [False, False], sig)
        eng.sample({'family': fam, 'target': target, 'mode': mode, 'mkdir_fault_at': fault, 'spelling': how,
                    'outcome': oi.get('outcome')})
    finally:
        w.close()


def ref_build_with_fault(w, state, rr, fault_path, fexc='OSError'):
    """Reference build in which creating `fault_path` fails: the build_file call
    raises OSError in setup and leaves none of the directories it made."""
    if fault_path is None:
        r = ref_build(w.ref, w.cache, state, rr.root)
        return (r[0], r[1])
    from . import refmodel as R
    orig = R.RefRun.make_dirs

    def make_dirs(self, d, view):
        # same walk as the original, but creating fault_path fails and undoes this call's directories
        todo = []
        q = d
        while True:
            k = view._kind(q) if view is not None else self.fs.kind(q)
            if k == DIR:
                break
            if k == FILE or q == self.cache:
                raise NotADirectoryError(q)
            todo.append(q)
            q2 = posixpath.dirname(q)
            if q2 == q:
                raise FileNotFoundError(q)
            q = q2
        if fault_path in todo:
            if fexc == 'ValueError':
                raise ValueError('embedded null byte (reference)')
            raise OSError(errno.ENAMETOOLONG, 'File name too long (reference)', fault_path)
        return orig(self, d, view)

    R.RefRun.make_dirs = make_dirs
    try:
        r = ref_build(w.ref, w.cache, state, rr.root)
    finally:
        R.RefRun.make_dirs = orig
    return (r[0], r[1])

"""Skeleton families: concrete nesting shapes with symbolic holes.  Holes range
over roles relative to the skeleton (DESIGN.md section 6.1, appendix B), chosen
through eng.choose so every combination is a feasible path the solver reaches.
"""
from .program import QUERY_KINDS, BF_MODES

U7 = ['in', 'in/x', 'in/y', 'o', 'o/f', 'o/d', 'o/d/g']
U9 = U7 + ['o/d/h', 'o/x']
UN3 = ['o', 'o/d', 'o/d/g', 'o/m', 'o/w']

IN, IND, TI, P1, T1, TS, T2, TX = 'in/x', 'in', 'in/y', 'o', 'o/f', 'o/d', 'o/d/g', 'o/x'

KINDS_SMALL = ['is_file', 'is_dir', 'list_dir', 'read_m']
KINDS_MED = ['is_file', 'is_dir', 'exists', 'list_dir', 'read_m', 'get_size']
KINDS_ALL = list(QUERY_KINDS)


def pick(eng, name, options):
    return options[eng.choose(name, len(options))]


def q_hole(eng, tag, kinds, roles):
    return ('Q', pick(eng, 'qk' + tag, kinds), pick(eng, 'qp' + tag, roles))


def bf_opts(eng, tag, modes, catch=None, cmp=None):
    o = {'mode': pick(eng, 'mode' + tag, modes)}
    if catch is None:
        o['catch'] = bool(eng.choose('catch' + tag, 2))
    else:
        o['catch'] = catch
    if cmp is not None:
        o['cmp'] = pick(eng, 'cmp' + tag, cmp) if isinstance(cmp, (list, tuple)) else cmp
    return o


FAIL_MODES = ['raise_before', 'raise_after', 'no_create', 'nonjson']


def skeleton(eng, name, P):
    """Return a list of per-build bodies (usually the same body for every
    build; A8/swap families differ per build)."""
    kinds = P.get('kinds', KINDS_MED)
    roles = P.get('roles', [IN, IND, P1, T1])
    targets = P.get('targets', [T1, T2, TI])
    modes = P.get('modes', list(BF_MODES))
    if name == 'A1a':
        return [[q_hole(eng, '0', kinds, roles)]]
    if name == 'A1b':
        return [[q_hole(eng, '0', kinds, roles), q_hole(eng, '1', kinds, roles)]]
    if name == 'A2a':
        return [[('SB', 's', {}, [q_hole(eng, '0', kinds, roles)])]]
    if name == 'A2b':
        return [[('SB', 's', {}, [('SB', 't', {}, [q_hole(eng, '0', kinds, roles)])])]]
    if name == 'A3':
        t = pick(eng, 't', targets)
        return [[('BF', t, bf_opts(eng, '0', modes), [q_hole(eng, '0', kinds, roles)]),
                 q_hole(eng, '1', kinds, roles + [t])]]
    if name == 'A4':
        t = pick(eng, 't', targets)
        return [[('SB', 's', {}, [('BF', t, bf_opts(eng, '0', modes, catch=True), []),
                                  q_hole(eng, '0', kinds, roles + [t])])]]
    if name == 'A5a':
        t = pick(eng, 't', [T1, T2])
        t2 = T2 if t == T1 else pick(eng, 't2', [T1, TX])
        return [[('BF', t, bf_opts(eng, '0', modes), [('BF', t2, bf_opts(eng, '1', modes), [])])]]
    if name == 'A5b':
        t = pick(eng, 't', [T1, T2])
        t2 = T2 if t == T1 else pick(eng, 't2', [T1, TX])
        return [[('BF', t, bf_opts(eng, '0', modes), []), ('BF', t2, bf_opts(eng, '1', modes), [])]]
    if name == 'A6':
        t = pick(eng, 't', [T1, T2])
        t2 = pick(eng, 't2', [TX, 'o/d/h'] if t == T2 else [T2, TX])
        a = ('BF', t, {'mode': 'ok'}, [])
        b = ('BF', t2, bf_opts(eng, '1', FAIL_MODES[:2], catch=True), [])
        order = eng.choose('order', 2)
        tail = [q_hole(eng, '0', kinds, [P1, TS])] if P.get('tail', True) else []
        return [[('SB', 's', {}, ([a, b] if order == 0 else [b, a]) + tail)]]
    if name == 'A7':
        t = pick(eng, 't', targets)
        return [[('IF', q_hole(eng, '0', ['is_file', 'is_dir', 'exists', 'list_dir'], roles),
                  [('BF', t, bf_opts(eng, '0', ['ok', 'raise_after']), [])],
                  [q_hole(eng, '1', kinds, roles)])]]
    if name == 'A5c':
        # a build_file nested below the (unfinished) output path of its enclosing build_file, which may have written its
        # file already
        o = bf_opts(eng, '0', modes)
        o['write_first'] = bool(eng.choose('wf', 2))
        return [[('BF', TS, o, [('BF', T2, bf_opts(eng, '1', ['ok', 'raise_after'], catch=True), [])]),
                 q_hole(eng, '0', kinds, [P1, TS])]]
    if name == 'A5d':
        # the mirror image of A5c: a build_file nested *above* the output of its enclosing build_file (its target is the
        # directory that holds the unfinished output)
        o = bf_opts(eng, '0', modes)
        o['write_first'] = bool(eng.choose('wf', 2))
        return [[('BF', T2, o, [('BF', TS, bf_opts(eng, '1', ['ok', 'raise_after'], catch=True), [])]),
                 q_hole(eng, '0', kinds, [P1, TS])]]
    if name == 'A10':
        # the next build stops producing an output (in directories of its own) that the previous build made
        keep = bool(eng.choose('keep', 2))
        b1 = [('BF', T2, {'mode': 'ok'}, []), ('BF', T1, {'mode': 'ok'}, []), q_hole(eng, '0', kinds, [P1, TS])]
        b2 = ([('BF', T1, {'mode': 'ok'}, [])] if keep else []) + [q_hole(eng, '0', kinds, [P1, TS])]
        return [b1, b2]
    if name == 'A13':
        # "look at my previous output, then regenerate it": a caching function asks about a path (or its directory) and only
        # then has its own nested build_file create that path
        t = pick(eng, 't', targets)
        import posixpath
        return [[('SB', 's', {}, [q_hole(eng, '0', kinds, [t, posixpath.dirname(t)]), ('BF', t, bf_opts(eng, '0', modes, catch=True), []),
                                  q_hole(eng, '1', kinds, [t])])]]
    if name == 'A12':
        # an output (possibly at a foreign file's position) is built first; then a build_file whose target name the OS
        # refuses - an embedded NUL byte (ValueError from every os call) or 256 characters (OSError) - fails, caught or not
        t = pick(eng, 't', targets)
        bad = pick(eng, 'bad', P.get('bad_names', ['o/d/n\0x', 'o/d/' + 'T' * 256]))
        return [[('BF', t, {'mode': 'ok'}, []), ('BF', bad, bf_opts(eng, '1', ['ok']), []), q_hole(eng, '0', kinds, [P1, TS])]]
    if name == 'A9':
        # a build_file function that asks about its own output directory and then reads an input; afterwards the root asks
        # about the directory (the interesting histories change the input, so the replay of the record stops half-way)
        import posixpath
        t = pick(eng, 't', targets)
        par = posixpath.dirname(t)
        return [[('BF', t, bf_opts(eng, '0', modes, catch=True),
                  [q_hole(eng, '0', ['list_dir', 'is_dir', 'exists'], [par, P1]), q_hole(eng, 'r', ['read_m', 'read_h'], [IN])]),
                 q_hole(eng, '1', kinds, [par, P1, t])]]
    if name == 'A8':
        # file <-> directory swap of an output position between builds
        first = eng.choose('first', 2)
        sd, sf = P.get('swap_dir', TS), P.get('swap_file', T2)      # e.g. the directory that holds the cache file
        b1 = [('BF', sd, {'mode': 'ok'}, [])]
        b2 = [('BF', sf, bf_opts(eng, '0', ['ok', 'raise_after'], catch=False), [])]
        tail = [q_hole(eng, '0', kinds, [P1, sd, sf])]
        return [b1 + tail, b2 + tail] if first == 0 else [b2 + tail, b1 + tail]
    if name == 'B1':
        # the KeyError shape: a caught failing build_file whose function caught a failing build_file
        inner = ('BF', TX, bf_opts(eng, '1', FAIL_MODES[:2], catch=True), [])
        outer = ('BF', T2, bf_opts(eng, '0', FAIL_MODES[:2] + ['ok'], catch=True), [inner])
        return [[('SB', 's', {}, [outer, q_hole(eng, '0', kinds, [P1, TS])])]]
    if name == 'B2':
        t = pick(eng, 't', [T1, T2])
        par = P1 if t == T1 else TS
        return [[('SB', 's', {}, [('BF', t, bf_opts(eng, '0', FAIL_MODES[:3], catch=True),
                                   [q_hole(eng, '0', P.get('inner_kinds', ['list_dir', 'is_dir', 'walk']), [par, P1])]),
                                  q_hole(eng, '1', ['list_dir', 'is_dir', 'walk', 'exists'], [par, P1])])]]
    if name == 'B9':
        # one cacheable function with two (possibly failing, caught) build_file calls whose outputs are siblings or cousins
        # below a common directory, followed by a look at that directory or its parent
        t1 = pick(eng, 't1', P.get('t1s', ['o/d/g', 'o/d/p/x']))
        t2 = pick(eng, 't2', P.get('t2s', ['o/d/h', 'o/d/q/y']))
        m = P.get('bf_modes', ['ok', 'raise_before', 'raise_after'])
        cmp = P.get('cmp')          # e.g. ['METADATA', 'HASH']: the comparison mode the outputs are recorded under
        return [[('SB', 's', {}, [('BF', t1, bf_opts(eng, '0', m, catch=True, cmp=cmp), []),
                                  ('BF', t2, bf_opts(eng, '1', m, catch=True, cmp=cmp), []),
                                  q_hole(eng, '0', kinds, [P1, TS])])]]
    if name == 'B10':
        # as B9, but the second build_file call is made by the function of the first (cousin directories below o/d)
        m = ['ok', 'raise_before', 'raise_after']
        return [[('SB', 's', {}, [('BF', 'o/d/q/y', bf_opts(eng, '0', m, catch=True),
                                   [('BF', 'o/d/p/x', bf_opts(eng, '1', m, catch=True), [])]),
                                  q_hole(eng, '0', kinds, [P1, TS])])]]
    if name == 'B3':
        ms = [pick(eng, 'm%d' % i, ['ok', 'raise_before', 'raise_after']) for i in range(3)]
        ts = ['o/d/g', 'o/d/h', 'o/d/i']
        return [[('BF', ts[i], {'mode': ms[i], 'catch': True}, []) for i in range(3)] +
                [q_hole(eng, '0', ['list_dir', 'is_dir', 'walk'], [P1, TS])]]
    if name == 'B6a':
        return [[('SB', 's', {}, [('BF', pick(eng, 't', targets), bf_opts(eng, '0', ['ok', 'raise_after'], catch=True),
                                   [('SB', 't', {}, [q_hole(eng, '0', kinds, roles)])])])]]
    if name == 'B6b':
        return [[('BF', T1, bf_opts(eng, '0', ['ok', 'raise_after'], catch=True),
                  [('SB', 's', {}, [('BF', T2, bf_opts(eng, '1', ['ok', 'raise_after'], catch=True), [])])])]]
    if name == 'B7':
        # raise depends on data: deterministic failing function
        return [[('SB', 's', {'catch': True}, [('RAISEIF', q_hole(eng, '0', ['is_file', 'is_dir', 'exists'], roles)),
                                               q_hole(eng, '1', kinds, roles)])]]
    if name == 'B8':
        # read-back of an output by a sibling function
        t = pick(eng, 't', [T1, T2])
        return [[('BF', t, {'mode': 'ok', 'cmp': pick(eng, 'c', ['METADATA', 'HASH'])}, [q_hole(eng, '0', ['read_m', 'read_h'], [IN])]),
                 ('SB', 's', {}, [q_hole(eng, '1', ['read_m', 'read_h', 'get_size'], [t])])]]
    if name == 'A8b':
        # a directory tree of outputs of one build becomes a single output file in the next (and back)
        first = eng.choose('first', 2)
        b1 = [('BF', 'o/d/e/h', {'mode': 'ok'}, []), ('BF', T2, {'mode': 'ok'}, [])]
        b2 = [('BF', TS, bf_opts(eng, '0', ['ok', 'raise_after'], catch=P.get('catch', True)), [])]
        tail = [q_hole(eng, '0', kinds, [P1, TS])]
        return [b1 + tail, b2 + tail] if first == 0 else [b2 + tail, b1 + tail]
    if name == 'A11':
        # the second build asks about a directory that only holds obsolete outputs of the first, then builds a new output in it
        b1 = [('BF', T2, {'mode': 'ok'}, [])]
        b2 = [q_hole(eng, '0', kinds, [P1, TS]), ('BF', 'o/d/r', bf_opts(eng, '0', ['ok', 'raise_after'], catch=True), []),
              q_hole(eng, '1', kinds, [P1, TS])]
        return [b1, b2]
    if name == 'A8d':
        # the second build first rebuilds another output (different function), then turns a directory of outputs into a file
        b1 = [('BF', T1, {'mode': 'ok', 'name': 'f-old'}, []), ('BF', T2, {'mode': 'ok'}, []), ('BF', 'o/d/h', {'mode': 'ok'}, [])]
        b2 = [('BF', T1, {'mode': 'ok', 'name': 'f-new'}, []), ('BF', TS, bf_opts(eng, '0', ['ok', 'raise_after'], catch=P.get('catch')), []),
              q_hole(eng, '0', kinds, [P1, TS])]
        return [b1, b2]
    if name == 'A8c':
        # as A8b (one direction), but the second build asks about the tree before it swaps the directory for a file
        b1 = [('BF', 'o/d/e/h', {'mode': 'ok'}, []), ('BF', T2, {'mode': 'ok'}, [])]
        b2 = [q_hole(eng, '0', kinds, [P1, TS]), ('BF', TS, bf_opts(eng, '0', ['ok', 'raise_after'], catch=P.get('catch', True)), []),
              q_hole(eng, '1', kinds, [P1, TS])]
        return [b1, b2]
    if name == 'A3r':
        # the first thing a build does is a query (nothing else has touched the bookkeeping yet)
        t = pick(eng, 't', targets)
        return [[q_hole(eng, '0', kinds, roles), ('BF', t, bf_opts(eng, '0', modes, catch=True), []),
                 q_hole(eng, '1', kinds, roles)]]
    if name == 'V1':
        # a nested function changes its body together with its version between two builds (its caller does not)
        wrap = pick(eng, 'wrap', ['SB', 'BF'])
        m1 = pick(eng, 'm1', ['ok', 'raise_before', 'raise_after'])
        m2 = pick(eng, 'm2', ['ok', 'raise_after'])
        def body(m):
            inner = ('BF', T2, {'mode': m, 'catch': True, 'name': 'f'}, [])
            outer = ('SB', 's', {}, [inner]) if wrap == 'SB' else ('BF', 'o/w', {'mode': 'ok', 'name': 'w'}, [inner])
            return [outer, q_hole(eng, '0', ['is_file', 'is_dir'], [T2, TS])]
        b1 = body(m1)
        b2 = [b1[0][:3] + ([('BF', T2, {'mode': m2, 'catch': True, 'name': 'f'}, [])],), b1[1]]
        return [b1, b2]
    if name == 'P2':
        # sibling directories whose names are prefixes of each other (o/d, o/dx); the second build no longer builds
        # o/dx/old, which therefore is a stale output keeping o/dx non-empty until commit
        b1 = [('BF', 'o/dx/old', {'mode': 'ok'}, []), ('BF', 'o/dx/y', {'mode': 'ok', 'name': 'y'}, [])]
        b2 = [('BF', 'o/dx/y', {'mode': 'ok', 'name': 'y'}, []),
              ('BF', 'o/d/g', bf_opts(eng, '0', ['ok', 'raise_before', 'raise_after']), [])]
        return [b1, b2]
    if name == 'CD':
        # outputs inside the directory that holds the cache file
        return [[('BF', 'c/x', bf_opts(eng, '0', ['ok', 'raise_before', 'raise_after'], catch=True), []),
                 ('BF', 'c/sub/y', bf_opts(eng, '1', ['ok', 'raise_after'], catch=True), [])]]
    if name == 'S1':
        # a (failing, caught) build_file on a path that a later build_file of the same build uses as a directory
        return [[('BF', TS, bf_opts(eng, '0', FAIL_MODES[:2] + ['ok'], catch=True), []),
                 ('BF', T2, bf_opts(eng, '1', ['ok', 'raise_after'], catch=True), [])]]
    if name == 'N3':
        # every 3-level chain of subbuild / build_file with success or (caught) failure at each level,
        # each output in a directory of its own, followed by a query at the root
        tgt = {3: 'o/w', 2: 'o/m/x', 1: 'o/d/g'}

        def gen(depth):
            tag = 'n%d' % depth
            body = [gen(depth - 1)] if depth > 1 else []
            if depth == 1 and P.get('leaf_output'):
                # the innermost function builds a file of its own (so that a subbuild there has something to create)
                body = [('BF', P['leaf_output'], {'mode': 'ok'}, [])]
            if depth > 1 and P.get('inner_q'):
                body.append(q_hole(eng, tag, P['inner_q'], P.get('inner_roles', ['o/d', 'o/m'])))
            if eng.choose('sb' + tag, 2):
                mode = pick(eng, 'mode' + tag, P.get('sb_modes', ['ok', 'raise']))
                return ('SB', 's%d' % depth, {'mode': mode, 'catch': mode != 'ok'}, body)
            mode = pick(eng, 'mode' + tag, P.get('bf_modes', ['ok', 'raise_before', 'raise_after']))
            return ('BF', tgt[depth], {'mode': mode, 'catch': mode != 'ok'}, body)

        return [[gen(3), q_hole(eng, 'r', P.get('kinds', ['is_dir', 'list_dir', 'walk', 'exists', 'is_file']),
                                P.get('roles', ['o', 'o/d', 'o/m', 'o/d/g', 'o/m/x']))]]
    raise ValueError(name)

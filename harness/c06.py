"""C06 versions: a JSON-different version invalidates exactly the function and
its transitive callers; JSON-equal versions invalidate nothing."""
from symx import logic as L
from .world import World
from .program import Program, show, RAISES
from .common import Driver
from . import jsonval as J

LEVEL = 'model_checking'
BUDGET_S = {'quick': 160, 'thorough': 900}
BOUNDS = {
    'quick': 'call graph outer -> mid -> leaf plus an independent sibling, each of outer/mid/leaf a subbuild or a '
             'build_file (all 8 combinations); one function gets arbitrary (old, new) versions from '
             '{absent, None, bool, int, float, str, [int, {k: int}], (int, {k: int}), {7: int}, {"7": int}, {a:int, b:int} in either key order} with symbolic '
             'leaves, the others keep one version; the same with an unchanged build in between (three builds, 4 shapes); second family: all three vary over {absent, int, float}',
    'thorough': 'plus diamond graph (two callers of one leaf function name with different arguments) and three-build histories',
}
ASSUMPTIONS = [
    'user obligation: JSON-equal versions imply equal behaviour (ret_old == ret_new is assumed under spec_equal(v_old, v_new))',
]
WITNESSES = {'quick': ['version-changed-reexecuted', 'json-equal-nothing-reexecuted', 'int-vs-float-equal'],
             'thorough': ['version-changed-reexecuted', 'json-equal-nothing-reexecuted']}

NAMES = ['outer', 'mid', 'leaf']
SHAPES = ['absent', 'none', 'bool', 'int', 'float', 'str', 'nested', 'dict-ab', 'dict-ba', 'empty', 'intkey', 'strkey', 'tuple']


def families(tier):
    f = [{'name': 'one-changes', 'params': {}, 'weight': 3}, {'name': 'all-vary', 'params': {}, 'weight': 1},
         # build, unchanged build (everything reused), then a build in which one version changes / disappears / stays
         {'name': 'one-changes', 'params': {'builds': 3, 'repeat_first': True, 'shapes': ['absent', 'none', 'int', 'str']}, 'weight': 2},
         {'name': 'all-vary', 'params': {'leaf_may_raise': True}, 'weight': 2},
         # a user function that happens to be called like a simple operation, next to an independent function that used it
         {'name': 'one-changes', 'params': {'leaf_name': 'is_dir', 'side_query': 'is_dir', 'shapes': ['absent', 'int', 'str']}, 'weight': 1},
         {'name': 'one-changes', 'params': {'leaf_name': 'read', 'side_query': 'read_m', 'shapes': ['absent', 'int']}, 'weight': 1}]
    if tier == 'thorough':
        f += [{'name': 'one-changes', 'params': {'builds': 3}, 'weight': 3}, {'name': 'diamond', 'params': {}, 'weight': 2}]
    return f


def version(eng, tag, shapes):
    k = shapes[eng.choose('vs' + tag, len(shapes))]
    if k == 'absent':
        return ('absent', None)
    if k == 'none':
        return ('val', None)
    if k == 'bool':
        return ('val', eng.fresh_bool('vb' + tag))
    if k == 'int':
        return ('val', eng.fresh_int('vi' + tag))
    if k == 'float':
        return ('val', eng.fresh_float('vf' + tag))
    if k == 'str':
        return ('val', 'v1' if eng.choose('vstr' + tag, 2) else 'v2')
    if k == 'nested':
        return ('val', [eng.fresh_int('va' + tag), {'k': eng.fresh_int('vk' + tag)}])
    if k == 'empty':
        return ('val', [[], {}, ''][eng.choose('vempty' + tag, 3)])
    if k in ('intkey', 'strkey'):
        # versions are compared as JSON values: {7: x} is {'7': x}
        return ('val', {(7 if k == 'intkey' else '7'): eng.fresh_int('vik' + tag)})
    if k == 'tuple':
        return ('val', (eng.fresh_int('va' + tag), {'k': eng.fresh_int('vk' + tag)}))
    a, b = eng.fresh_int('vda' + tag), eng.fresh_int('vdb' + tag)
    return ('val', {'a': a, 'b': b} if k == 'dict-ab' else {'b': b, 'a': a})


def vval(eng, v):
    """the version as the JSON value it denotes (absent = None; tuples = lists; keys stringified)"""
    return None if v[0] == 'absent' else J.spec_roundtrip(eng, v[1])


def vmap(m):
    return {n: v[1] for n, v in m.items() if v[0] == 'val'}


def harness(eng, fam, P):
    # the leaf function may carry the name of a simple operation (is_dir, read, ...): names of user functions and of
    # operations live in different version maps
    LEAF = P.get('leaf_name', 'leaf')
    NAMES = ['outer', 'mid', LEAF]
    w = World(eng, [], fixed={'o': 'D'}, sandbox=getattr(eng, 'sandbox', None))
    try:
        kinds = [eng.choose('kind' + n, 2) for n in NAMES]       # 0 subbuild, 1 build_file

        catch_leaf = bool(P.get('leaf_may_raise'))

        def mk(i, body):
            n = NAMES[i]
            if kinds[i] == 0:
                return ('SB', n, {'catch': catch_leaf and i == 2}, body)
            return ('BF', 'o/' + n, {'mode': 'ok', 'name': n, 'catch': catch_leaf and i == 2}, body)

        if fam == 'diamond':
            leaf1 = ('SB', LEAF, {'args': (1,)}, [])
            leaf2 = ('SB', LEAF, {'args': (2,)}, [])
            body = [mk(0, [leaf1]), mk(1, [leaf2]), ('SB', 'side', {}, [])]
            callers = {'outer': ['outer', LEAF], 'mid': ['mid', LEAF], LEAF: [LEAF], 'side': ['side']}
        else:
            body = [mk(0, [mk(1, [mk(2, [])]), ('SB', 'side', {}, [('Q', P['side_query'], 'o')] if P.get('side_query') else [])])]
            callers = {'outer': ['outer', 'mid', LEAF], 'mid': ['mid', LEAF], LEAF: [LEAF], 'side': ['side']}
        prog = Program(eng, body)
        eng.path_info['program'] = show(body)
        sid_name = {}
        for sid, kind, x in prog.functions:
            sid_name[sid] = x if kind == 'SB' else x[2:]
        nbuilds = P.get('builds', 2)
        vers = []
        if fam == 'all-vary':
            for b in range(nbuilds):
                vers.append({n: version(eng, '%s%d' % (n, b), ['absent', 'int', 'float']) for n in NAMES})
        else:
            c = eng.choose('changing', 3)
            base = {n: version(eng, n + 'base', ['absent', 'int', 'nested']) for n in NAMES}
            shapes = P.get('shapes', SHAPES)
            for b in range(nbuilds):
                m = dict(base)
                if P.get('repeat_first') and b == 1:
                    # an unchanged build in between: everything is reused, the version map is the same object-wise
                    m[NAMES[c]] = vers[0][NAMES[c]]
                else:
                    m[NAMES[c]] = version(eng, '%s%d' % (NAMES[c], b), shapes)
                vers.append(m)
        # behaviour per build: a symbolic return value; JSON-equal versions => same behaviour
        behs = []
        for b in range(nbuilds):
            beh = {sid: eng.fresh_int('ret%d:%s' % (b, sid)) for sid in sid_name}
            if b > 0:
                for sid, n in sid_name.items():
                    if n in NAMES:
                        same_v = J.spec_equal(vval(eng, vers[b - 1][n]), vval(eng, vers[b][n]))
                    else:
                        same_v = True
                    eng.constrain(L.implies(same_v, beh[sid] == behs[b - 1][sid]))
            if P.get('leaf_may_raise'):
                # one version of the leaf may be a raising one (caught by mid); JSON-equal versions behave alike
                leaf_sid = [sid for sid, n in sid_name.items() if n == LEAF][0]
                r = bool(eng.choose('leafraises%d' % b, 2))
                if b > 0:
                    same_v = J.spec_equal(vval(eng, vers[b - 1][LEAF]), vval(eng, vers[b][LEAF]))
                    eng.assume(L.implies(same_v, r == (behs[b - 1][leaf_sid] is RAISES)), 'JSON-equal versions of a function behave alike (raising or not)')
                if r:
                    beh[leaf_sid] = RAISES
            behs.append(beh)
        d = Driver(eng, w)
        for b in range(nbuilds):
            impl, ref = d.build(prog, versions=vmap(vers[b]), behaviour=behs[b])
            d.check_same('C06', (fam, 'build%d' % (b + 1)))
            if b == 0:
                continue
            changed = {n: L.not_(J.spec_equal(vval(eng, vers[b - 1][n]), vval(eng, vers[b][n]))) for n in NAMES}
            changed['side'] = False
            invoked = set(sid_name[s] for s in d.impl_calls)
            for n, deps in callers.items():
                exp = L.or_(*[changed[x] for x in deps])
                inv = n in invoked
                eng.check('C06.invalidation', exp if inv else L.not_(exp),
                          (fam, n, 'invoked' if inv else 'reused', ''.join('SB'[0] if k == 0 else 'F' for k in kinds)),
                          info={'function': n, 'invoked': inv, 'program': show(body)})
            if invoked:
                eng.witness('version-changed-reexecuted')
            else:
                eng.witness('json-equal-nothing-reexecuted')
                for n in NAMES:
                    a, c2 = vval(eng, vers[b - 1][n]), vval(eng, vers[b][n])
                    if {a.__class__, c2.__class__} == {int, float}:
                        eng.witness('int-vs-float-equal')
        eng.sample({'family': fam, 'program': show(body), 'versions': [J.concretise(vmap(v)) for v in vers]})
    finally:
        w.close()

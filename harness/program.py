"""Build programs: a small statement language interpreted against either the
real FileBuilder or the reference builder.

stmt ::= ('Q', kind, rel)                       kind in QUERY_KINDS
       | ('BF', rel, opts, body)                opts: mode catch cmp name arg
       | ('SB', name, opts, body)               opts: mode catch arg
       | ('IF', ('Q', kind, rel), body, body)   data-dependent control flow
       | ('RAISEIF', ('Q', kind, rel))          raise Boom iff the query is truthy

Every function returns the list of everything it observed (answers or OSError
class names, nested results) so a stale answer anywhere shows in the value.
"""
from symx.common import is_sym
from symx.env import Content

QUERY_KINDS = ('is_file', 'is_dir', 'exists', 'list_dir', 'walk', 'get_size', 'read_m', 'read_h')
# further spellings of the same operations (other public wrappers): bottom-up walk, read_text, declare_read
EXTRA_KINDS = ('walk_bu', 'read_t', 'declare', 'declare_m')
BF_MODES = ('ok', 'raise_before', 'raise_after', 'no_create', 'nonjson')


class Boom(Exception):
    """The exception user code raises."""


class Crash(Exception):
    """Raised at the symbolic crash point."""


class Raises:
    """behaviour marker: this version of the function raises"""

    def __repr__(self):
        return 'Raises'


RAISES = Raises()


class NotJson:
    _not_json = True

    def __repr__(self):
        return 'NotJson'


class Side:
    """Per-side execution context (implementation or reference)."""

    def __init__(self, world, fs, is_ref, prog):
        self.world = world
        self.fs = fs
        self.is_ref = is_ref
        self.prog = prog
        self.calls = []          # invocation log: sids of executed function bodies
        self.crash = None        # (sid, pos) or None
        self.probe = None        # callable(builder, where) for C04
        self.fc = None
        self.on_query = None     # callable(kind, path, result)
        self.behaviour = None    # {sid: value} appended to the function's result (C06: behaviour of a version)
        self.raised = []         # exception objects raised by user code, in order
        self.stack = []          # sids of the functions currently executing
        self.trace = {}          # sid -> flattened trace of its dynamic subtree (queries, nested call outcomes)
        self.outcome = {}        # sid -> 'ok' | 'raised' | 'setup-failed' of the call in this build
        self.api_stack = []      # sids of the builder calls in progress (innermost last), for fault attribution
        self.fail_setup = None   # reference side (C14): the call with this sid fails in setup with OSError, without effect


def _fc(side, name):
    if side.is_ref:
        return name
    if side.fc is None:
        from file_builder import FileComparison
        side.fc = FileComparison
    return side.fc[name]


def _scribble(side, raw):
    """User code owns what a query returned (C11): after taking its (normalised) answer it edits the returned containers
    in place - the os.walk pruning idiom and friends.  Must never influence records, later answers or re-execution."""
    if side.is_ref or not isinstance(raw, list):
        return
    for x in raw:
        if isinstance(x, tuple):
            for inner in x[1:]:
                if isinstance(inner, list):
                    inner[:] = [n for n in inner if not n.startswith('.')] + ['~scribble']
    raw.append('~scribble')


def do_query(b, side, kind, path):
    try:
        if kind == 'read_t':
            h = b.read_text(path, _fc(side, 'METADATA'))
            try:
                data = h.read()
            finally:
                h.close()
            if isinstance(data, str):
                data = data.encode('latin-1')
            r = side.world.cid_of(data, side.fs)
        elif kind == 'declare':
            r = b.declare_read(path, _fc(side, 'HASH'))
        elif kind == 'declare_m':
            r = b.declare_read(path, _fc(side, 'METADATA'))
        elif kind == 'walk_bu':
            raw = b.walk(path, False)
            r = sorted([[d, sorted(sd), sorted(sf)] for d, sd, sf in raw])
            _scribble(side, raw)
        elif kind == 'read_m' or kind == 'read_h':
            cmp = _fc(side, 'METADATA' if kind == 'read_m' else 'HASH')
            h = b.read_binary(path, cmp)
            try:
                data = h.read()
            finally:
                h.close()
            r = side.world.cid_of(data, side.fs)
        elif kind == 'walk':
            # the order of names is unspecified by the API: a deterministic user function normalises it
            raw = b.walk(path)
            r = sorted([[d, sorted(sd), sorted(sf)] for d, sd, sf in raw])
            _scribble(side, raw)
        elif kind == 'list_dir':
            raw = b.list_dir(path)
            r = sorted(raw)
            _scribble(side, raw)
        else:
            r = getattr(b, kind)(path)
    except OSError as e:
        r = type(e).__name__
    if side.on_query is not None:
        side.on_query(kind, path, r)
    if side.stack:
        extra = None
        if kind == 'read_m' and side.is_ref and not isinstance(r, str):
            extra = side.fs.nodes[path].mtime
        for s_ in side.stack:
            side.trace[s_].append((kind, path, r, extra))
    return r


def truthy(r):
    """Truth of a query answer for IF / RAISEIF (exception names are false)."""
    if isinstance(r, str):
        return False
    if isinstance(r, list):
        return len(r) > 0
    if is_sym(r):
        return bool(r != 0) if r.__class__ is int else bool(r)
    return bool(r)


def _boom(side):
    e = Boom()
    side.raised.append(e)
    return e


def _crash_here(side, sid, pos):
    c = side.crash
    if c is not None and c[0] == sid and c[1] == pos:
        e = Crash()
        side.raised.append(e)
        raise e


def run_body(b, body, side, sid='r'):
    """Run a list of statements against builder b.  sid identifies the enclosing
    function ('r' = root); statements get ids sid.i"""
    out = []
    w = side.world
    if sid == 'r' and side.probe is not None:
        side.probe(b, 'r:start')          # before anything else has been asked in this build
    for i, st in enumerate(body):
        _crash_here(side, sid, i)
        tag = st[0]
        cid_ = '%s.%d' % (sid, i)
        if tag == 'Q':
            out.append(do_query(b, side, st[1], w.p(st[2])))
        elif tag == 'BF':
            out.append(_do_bf(b, st, side, cid_))
        elif tag == 'SB':
            out.append(_do_sb(b, st, side, cid_))
        elif tag == 'IF':
            r = do_query(b, side, st[1][1], w.p(st[1][2]))
            out.append(r)
            out.append(run_body(b, st[2] if truthy(r) else st[3], side, cid_ + ('t' if truthy(r) else 'e')))
        elif tag == 'RAISEIF':
            r = do_query(b, side, st[1][1], w.p(st[1][2]))
            out.append(r)
            if truthy(r):
                raise _boom(side)
        else:
            raise ValueError(tag)
        if side.probe is not None:
            side.probe(b, cid_ + ':done')
    _crash_here(side, sid, len(body))
    return out


def _args(opts, side, sid):
    """Declared arguments; a function whose subtree contains the crash point of
    this build gets an extra argument, so that its changed behaviour (raising)
    is a legitimately different call, not a nondeterministic function."""
    args = tuple(opts.get('args', ()))
    c = side.crash
    if c is not None and (c[0] == sid or c[0].startswith(sid + '.')):
        args = args + ('crash',)
    return args


def _record_outcome(side, sid, what):
    side.outcome[sid] = what
    for s_ in side.stack:
        side.trace[s_].append(('call', sid, what, None))


def _do_bf(b, st, side, sid):
    _, rel, opts, body = st
    w = side.world
    path = w.p(rel)
    mode = opts.get('mode', 'ok')
    name = opts.get('name', 'bf:' + sid)
    content = side.prog.content[sid]

    entered = []

    def f(b2, fn, *args):
        side.calls.append(sid)
        entered.append(1)
        side.trace[sid] = []
        side.stack.append(sid)
        try:
            return f_body(b2, fn)
        finally:
            side.stack.pop()

    def f_body(b2, fn):
        if side.probe is not None:
            side.probe(b2, sid + ':start')
        early = bool(opts.get('write_first')) and mode not in ('no_create', 'raise_before') and not opts.get('copy')
        if early:
            # the function writes its output first and only then runs its nested statements
            w.user_write(side.fs, fn, content)
        r = run_body(b2, body, side, sid)
        if side.probe is not None and body:
            side.probe(b2, sid + ':after-body')
        if mode == 'raise_before':
            raise _boom(side)
        c = content
        if opts.get('copy'):
            # the output's content is the content of an input (read through the builder)
            got = do_query(b2, side, 'read_h', w.p(opts['copy']))
            r.append(got)
            if not isinstance(got, str):
                c = got
        if mode != 'no_create' and not early:
            w.user_write(side.fs, fn, c)
            if side.probe is not None:
                side.probe(b2, sid + ':written')
        if mode == 'raise_after':
            raise _boom(side)
        if mode == 'nonjson':
            return NotJson()
        if side.behaviour is not None:
            if side.behaviour[sid] is RAISES:
                raise _boom(side)
            r.append(side.behaviour[sid])
        return r

    args = _args(opts, side, sid)
    side.api_stack.append(sid)
    try:
        if side.fail_setup == sid:
            raise OSError(5, 'injected fault (reference: the call fails in setup without effect)')
        cmp = opts.get('cmp')
        if cmp is None:
            v = b.build_file(path, name, f, *args)
        else:
            v = b.build_file_with_comparison(path, _fc(side, cmp), name, f, *args)
        side.api_stack.pop()
        _record_outcome(side, sid, 'ok')
        return v
    except Exception as e:
        if side.api_stack and side.api_stack[-1] == sid:
            side.api_stack.pop()
        _record_outcome(side, sid, 'raised' if entered else 'setup-failed')
        if not opts.get('catch') or isinstance(e, Crash):
            raise
        return 'exc:' + type(e).__name__


def _do_sb(b, st, side, sid):
    _, name, opts, body = st
    mode = opts.get('mode', 'ok')

    entered = []

    def g(b2, *args):
        side.calls.append(sid)
        entered.append(1)
        side.trace[sid] = []
        side.stack.append(sid)
        try:
            return g_body(b2)
        finally:
            side.stack.pop()

    def g_body(b2):
        r = run_body(b2, body, side, sid)
        if mode == 'raise':
            raise _boom(side)
        if side.behaviour is not None:
            if side.behaviour[sid] is RAISES:
                raise _boom(side)
            r.append(side.behaviour[sid])
        return r

    args = _args(opts, side, sid)
    side.api_stack.append(sid)
    try:
        if side.fail_setup == sid:
            raise OSError(5, 'injected fault (reference: the call fails in setup without effect)')
        v = b.subbuild(name, g, *args)
        side.api_stack.pop()
        _record_outcome(side, sid, 'ok')
        return v
    except Exception as e:
        if side.api_stack and side.api_stack[-1] == sid:
            side.api_stack.pop()
        _record_outcome(side, sid, 'raised' if entered else 'setup-failed')
        if not opts.get('catch') or isinstance(e, Crash):
            raise
        return 'exc:' + type(e).__name__


class Program:
    """A concrete statement tree plus the symbolic output contents."""

    def __init__(self, eng, body, shared=None):
        self.body = body
        self.content = {}
        self.functions = []
        # build_file statements with an explicit function name are the same function wherever they occur
        # (also in the program of another build): they write the same content
        self.shared = shared if shared is not None else {}
        self._scan(eng, body, 'r')

    def _scan(self, eng, body, sid):
        for i, st in enumerate(body):
            c = '%s.%d' % (sid, i)
            if st[0] == 'BF':
                nm = st[2].get('name')
                if nm is not None:
                    if nm not in self.shared:
                        self.shared[nm] = eng.fresh_int('out:name:' + nm)
                    self.content[c] = self.shared[nm]
                else:
                    self.content[c] = eng.fresh_int('out:' + c)
                self.functions.append((c, 'BF', st[1]))
                self._scan(eng, st[3], c)
            elif st[0] == 'SB':
                self.functions.append((c, 'SB', st[1]))
                self._scan(eng, st[3], c)
            elif st[0] == 'IF':
                self._scan(eng, st[2], c + 't')
                self._scan(eng, st[3], c + 'e')

    def outputs(self):
        return [f[2] for f in self.functions if f[1] == 'BF']


def show(body):
    """Compact rendering of a program for evidence samples."""
    parts = []
    for st in body:
        if st[0] == 'Q':
            parts.append('%s(%s)' % (st[1], st[2]))
        elif st[0] == 'BF':
            o = st[2]
            parts.append('BF(%s%s%s)[%s]' % (st[1], '' if o.get('mode', 'ok') == 'ok' else ',' + o['mode'],
                                             ',caught' if o.get('catch') else '', show(st[3])))
        elif st[0] == 'SB':
            o = st[2]
            parts.append('SB(%s%s%s)[%s]' % (st[1], '' if o.get('mode', 'ok') == 'ok' else ',' + o['mode'],
                                             ',caught' if o.get('catch') else '', show(st[3])))
        elif st[0] == 'IF':
            parts.append('IF(%s(%s))[%s][%s]' % (st[1][1], st[1][2], show(st[2]), show(st[3])))
        elif st[0] == 'RAISEIF':
            parts.append('RAISEIF(%s(%s))' % (st[1][1], st[1][2]))
    return '; '.join(parts)

"""C05 cache effectiveness: a build_file / subbuild function is called only when
that is justified; unchanged rebuilds redo nothing but failures."""
from symx import logic as L
from symx.fs import FILE
from .world import World
from .program import Program, show
from .common import Driver, veq
from .skeletons import skeleton, U7, UN3, KINDS_SMALL, KINDS_MED
from .mutate import mutate

LEVEL = 'model_checking'
BUDGET_S = {'quick': 260, 'thorough': 1800}
BOUNDS = {
    'quick': 'universe U7; skeleton set A (+B2, B3 shapes named in the property); histories B.M.B.B.B: a committed build, '
             'one symbolic mutation (any kind, any of 8 paths incl. unobserved ones), a rebuild (justification oracle), '
             'two unchanged rebuilds (strict: only calls that raised are re-run, no output rewritten, equal value)',
    'thorough': 'wider holes, skeleton set B, two mutations',
}
ASSUMPTIONS = [
    'justified(K) := K has no successful record in the previous committed build, or the flattened observation trace of its '
    'recorded subtree (query answers incl. mtime of METADATA reads, nested call outcomes) differs between the two '
    'from-scratch reference runs, or an output in the subtree no longer has the content id and mtime the previous build '
    'left, or a nested call failed in setup; computed from the reference model only',
    'strictness of the first unchanged rebuild is only demanded when the committed build did not overwrite foreign files '
    'at its target paths (property statement); the second unchanged rebuild is always strict',
]
WITNESSES = {'quick': ['unchanged-rebuild-strict', 'mutation-unobserved-nothing-rerun', 'rerun-justified'],
             'thorough': ['unchanged-rebuild-strict']}


def families(tier):
    mp = ['in/x', 'in', 'in/y', 'o', 'o/d', 'o/d/g', 'o/f', 'o/z']
    q = [
        {'name': 'A2a', 'params': {'kinds': KINDS_SMALL, 'mut_paths': mp}, 'weight': 2},
        {'name': 'A2a', 'params': {'kinds': ['list_dir', 'walk'], 'roles': ['in', 'o'], 'mut_paths': [], 'hist': 'BB', 'perm': True}, 'weight': 1},
        {'name': 'A3', 'params': {'kinds': ['is_file', 'read_m'], 'roles': ['in/x'], 'targets': ['o/d/g'],
                                  'modes': ['ok', 'raise_after'], 'mut_paths': mp}, 'weight': 3},
        {'name': 'A4', 'params': {'kinds': ['is_dir', 'list_dir', 'get_size', 'exists', 'read_h'], 'roles': ['o'], 'targets': ['o/d/g'],
                                  'modes': ['ok', 'raise_before', 'raise_after'], 'mut_paths': ['in/x', 'o/d', 'o/d/g', 'o/z']}, 'weight': 3},
        {'name': 'A5b', 'params': {'modes': ['ok', 'raise_before'], 'mut_paths': ['in/x', 'o/d/g', 'o/z']}, 'weight': 2},
        {'name': 'A6', 'params': {'kinds': ['is_dir', 'list_dir'], 'mut_paths': ['in/x', 'o/z']}, 'weight': 3},
        {'name': 'B2', 'params': {'mut_paths': [], 'hist': 'BBB'}, 'weight': 3},
        # four levels: the innermost subbuild builds a file, its caller looks at that file, the outermost reads an input that
        # changes - only the outermost may be re-executed
        {'name': 'N3', 'params': {'mut_paths': ['in/x'], 'mut_kinds': ['none', 'write'], 'universe': ['in', 'in/x', 'o', 'o/d'],
                                  'leaf_output': 'o/d/k', 'inner_q': ['is_file', 'read_m', 'exists'], 'inner_roles': ['o/d/k', 'in/x'],
                                  'sb_modes': ['ok'], 'bf_modes': ['ok'], 'kinds': ['is_dir'], 'roles': ['o']}, 'weight': 2},
        {'name': 'B9', 'params': {'mut_paths': [], 'hist': 'BB', 'universe': ['o', 'o/d'], 'kinds': ['is_dir', 'list_dir', 'exists']}, 'weight': 1},
        {'name': 'B10', 'params': {'mut_paths': [], 'hist': 'BB', 'universe': ['o', 'o/d', 'o/d/z'], 'kinds': ['is_dir', 'list_dir', 'exists']}, 'weight': 1},
        # every query kind inside a failing (caught) build_file function, on its own fresh parent directory
        {'name': 'B2', 'params': {'mut_paths': [], 'hist': 'BB', 'inner_kinds': ['get_size', 'exists', 'read_m', 'walk_bu']}, 'weight': 2},
        # a function that asks about a path (HASH / METADATA read, existence, listing of its directory) before its own nested
        # build_file creates it
        {'name': 'A13', 'params': {'mut_paths': [], 'hist': 'BBB', 'kinds': ['read_h', 'read_m', 'exists', 'list_dir', 'get_size'], 'targets': ['o/d/g', 'o/f'],
                                   'modes': ['ok'], 'universe': ['o', 'o/d']}, 'weight': 1},
        {'name': 'B8', 'params': {'mut_paths': ['in/x', 'in/y', 'o/f']}, 'weight': 2},
        {'name': 'N3', 'params': {'hist': 'BBB', 'universe': UN3, 'kinds': ['is_dir', 'list_dir', 'exists'], 'roles': ['o', 'o/d', 'o/m'], 'mut_paths': []}, 'weight': 3},
    ]
    if tier == 'quick':
        return q
    return q + [
        {'name': 'B2', 'params': {'mut_paths': ['in/x', 'o/z', 'o', 'o/d']}, 'weight': 4},
        {'name': 'A3', 'params': {'kinds': KINDS_SMALL, 'roles': ['in/x', 'o'], 'mut_paths': mp}, 'weight': 4},
        {'name': 'A4', 'params': {'kinds': KINDS_SMALL, 'roles': ['in/x', 'o'], 'mut_paths': mp}, 'weight': 4},
        {'name': 'A5a', 'params': {'modes': ['ok', 'raise_before', 'raise_after'], 'mut_paths': mp}, 'weight': 3},
        {'name': 'A6', 'params': {'kinds': ['is_dir', 'list_dir', 'walk'], 'mut_paths': mp}, 'weight': 3},
        {'name': 'A7', 'params': {'kinds': KINDS_SMALL, 'roles': ['in/x', 'in'], 'mut_paths': mp}, 'weight': 3},
        {'name': 'B1', 'params': {'kinds': ['is_dir', 'list_dir'], 'mut_paths': mp}, 'weight': 2},
        {'name': 'B3', 'params': {'mut_paths': mp}, 'weight': 2},
        {'name': 'B6a', 'params': {'kinds': KINDS_SMALL, 'mut_paths': mp}, 'weight': 2},
        {'name': 'B6b', 'params': {'mut_paths': mp}, 'weight': 2},
        {'name': 'B7', 'params': {'kinds': KINDS_SMALL, 'mut_paths': mp}, 'weight': 2},
    ]


def trace_eq(a, b, post_a, post_b):
    """Equality of two flattened traces -> bool | SymBool.  For METADATA reads
    the mtime belongs to the observation; it is taken from the implementation
    tree after the respective build (inputs do not change during a build, an
    output is written once per build)."""
    if len(a) != len(b):
        return False
    conds = []
    for x, y in zip(a, b):
        if x[0] != y[0] or x[1] != y[1]:
            return False
        conds.append(veq_any(x[2], y[2]))
        if x[0] == 'read_m' and not isinstance(x[2], str) and not isinstance(y[2], str):
            fa, fb = post_a.get(x[1]), post_b.get(x[1])
            if fa is None or fb is None or fa[0] != 'F' or fb[0] != 'F':
                return False
            conds.append(L.eq(fa[3], fb[3]))
    return L.and_(*conds)


def veq_any(a, b):
    from .refmodel import DirSize
    if isinstance(a, DirSize) and isinstance(b, DirSize):
        return True
    if isinstance(a, DirSize) or isinstance(b, DirSize):
        return False
    ta, tb = type(a), type(b)
    if ta in (list, tuple) and tb in (list, tuple):
        if len(a) != len(b):
            return False
        return L.and_(*[veq_any(x, y) for x, y in zip(a, b)])
    return L.eq(a, b)


def subtree_sids(prog, sid):
    return [f[0] for f in prog.functions if f[0] == sid or f[0].startswith(sid + '.')]


def harness(eng, fam, P):
    bodies = skeleton(eng, fam, P)
    prog = Program(eng, bodies[0])
    eng.path_info['program'] = show(bodies[0])
    w = World(eng, P.get('universe', U7), sandbox=getattr(eng, 'sandbox', None), perm_listdir=P.get('perm'))
    bf_path = {f[0]: w.p(f[2]) for f in prog.functions if f[1] == 'BF'}
    hist = P.get('hist', 'BMBBB')
    try:
        d = Driver(eng, w)
        prev = None          # record of the previous committed build
        changed = False      # a mutation happened since the previous build
        n_unchanged = 0      # unchanged rebuilds completed since the last build that followed a change
        desc = []
        for si, step in enumerate(hist):
            if step == 'M':
                m = mutate(eng, w, str(si), P.get('mut_kinds', ['none', 'delete', 'write', 'touch', 'mkdir', 'rmtree', 'file2dir', 'dir2file']),
                           P['mut_paths'])
                desc.append('M%s' % (m,))
                if m[0] != 'none':
                    changed = True
                eng.path_info['mutation'] = m
                continue
            pre = w.fs.snapshot(w.root)
            prev_outputs = set(d.state.outputs) if w.ref.kind(w.cache) == FILE else set()
            impl, ref = d.build(prog)
            sig = (fam, 'step%d' % si)
            d.guard_same()
            desc.append('B->' + impl[0])
            if impl[0] != 'ok':
                # a failing root build commits nothing: nothing to say about the next one
                eng.note('root-build-raised')
                return
            post = w.fs.snapshot(w.root)
            rs = d.ref_side
            if prev is not None:
                invoked = list(dict.fromkeys(d.impl_calls))
                # ---- justification of every invocation
                for sid in invoked:
                    j = []
                    if prev['outcome'].get(sid) != 'ok':
                        j.append(True)
                    else:
                        j.append(L.not_(trace_eq(prev['trace'].get(sid, []), rs.trace.get(sid, []), prev['post'], post)))
                        for s2 in subtree_sids(prog, sid):
                            if prev['outcome'].get(s2) == 'setup-failed':
                                j.append(True)
                            p2 = bf_path.get(s2)
                            if p2 is not None and prev['outcome'].get(s2) == 'raised' and pre.get(p2) is not None:
                                # a failed output has no file; now something is at its path
                                j.append(True)
                            if p2 is not None and prev['outcome'].get(s2) == 'ok':
                                a, b = prev['post'].get(p2), pre.get(p2)
                                if a is None or b is None or a[0] != 'F' or b[0] != 'F':
                                    j.append(True)
                                else:
                                    j.append(L.not_(L.and_(L.eq(a[2], b[2]), L.eq(a[3], b[3]))))
                    just = L.or_(*j)
                    eng.check('C05.unjustified-reexecution', just,
                              (fam, 'after-mutation' if changed else 'unchanged', sid,
                               prog_kind(prog, sid)),
                              info={'function': sid, 'program': show(bodies[0]), 'history': desc,
                                    'mutation': eng.path_info.get('mutation')})
                    eng.witness('rerun-justified')
                if changed and not invoked:
                    eng.witness('mutation-unobserved-nothing-rerun')
                # ---- strict unchanged rebuild
                if not changed:
                    strict = n_unchanged >= 1 or not prev['overwrote_foreign']
                    if strict:
                        raised_before = set(s for s, o in prev['outcome'].items() if o != 'ok')
                        # a function holding a nested call that failed in setup is legitimately re-run
                        for s_, o in prev['outcome'].items():
                            if o == 'setup-failed':
                                for f in prog.functions:
                                    if s_.startswith(f[0] + '.'):
                                        raised_before.add(f[0])
                        extra = [s for s in invoked if s not in raised_before]
                        eng.check('C05.unchanged-rebuild-reruns', not extra, (fam, 'rerun', 'second' if n_unchanged >= 1 else 'first'),
                                  info={'rerun': extra, 'program': show(bodies[0]), 'history': desc})
                        same = True
                        # outputs of functions that are legitimately re-run may be rewritten
                        may_rewrite = set(bf_path[s_] for s_ in invoked if s_ in raised_before and s_ in bf_path)
                        for p, s in prev['post'].items():
                            if s[0] == 'F' and p != w.cache and p not in may_rewrite:
                                q = post.get(p)
                                if q is None or q[0] != 'F' or q[1] != s[1]:
                                    eng.check('C05.output-rewritten', False, (fam, 'inode', w.rel(p)),
                                              info={'path': w.rel(p), 'history': desc})
                                same = L.and_(same, L.eq(q[3], s[3]))
                        eng.check('C05.output-mtime-changed', same, (fam, 'mtime'))
                        eng.check('C05.unchanged-rebuild-value', veq(impl[1], prev['value']), (fam, 'value'))
                        eng.witness('unchanged-rebuild-strict')
            prev_was_none = prev is None
            overwrote = any(s[0] == 'F' and p in bf_path.values() and p not in prev_outputs for p, s in pre.items())
            prev = {'trace': dict(rs.trace), 'outcome': dict(rs.outcome), 'post': post, 'value': ref[1],
                    'overwrote_foreign': overwrote}
            n_unchanged = 0 if (changed or prev_was_none) else n_unchanged + 1
            changed = False
        eng.sample({'family': fam, 'program': show(bodies[0]), 'history': desc})
    finally:
        w.close()


def prog_kind(prog, sid):
    for f in prog.functions:
        if f[0] == sid:
            return f[1]
    return '?'

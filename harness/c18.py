"""C18 JSON helper laws on the real JsonUtil, values as templates with symbolic
leaves (ints unbounded, integer-valued floats, ordered string atoms)."""
from symx import logic as L
from symx.bind import bind_names, unbind
from symx.common import PathEnd
from . import jsonval as J

LEVEL = 'model_checking'
BUDGET_S = {'quick': 170, 'thorough': 1200}
BOUNDS = {
    'quick': 'single values depth <= 2 width <= 2; pairs depth <= 1 width <= 2; triples of leaves and width-1 containers; '
             'leaves None / bool / unbounded int / integer-valued float |i| <= 2**53 / specials -0.0 0.5 inf 1e300 2.0**63 / concrete integers 2**53+1, 2**63+1, -2**63-1, 10**23 against the floats they round to / '
             'string atoms (free, rendering of an int, literals "" "a" "true" "null" non-BMP); dict keys str/int/bool/None/float '
             '(symbolic) and, in two families, concrete keys from {0, 1, -1, 2**53+1, True, False, 0.0, 1.0, -0.0, 0.5, inf, '
             '"true", "1", "1.0", "null"}',
    'thorough': 'single values depth <= 2 width <= 3; pairs depth <= 2 width <= 2; triples depth <= 1 width <= 2',
}
ASSUMPTIONS = [
    'strings are ordered atoms: the library only compares, orders and hashes string leaves (any other string '
    'operation aborts the run as Unsupported)',
    'repr(int) is injective and never yields a JSON keyword; repr of an integer-valued float is injective and distinct '
    'from every int rendering',
    'NaN excluded (property statement); non-integer floats only through the listed specials',
]
STUBS = ['repr (module global of json_util) -> proxy-aware repr; nothing else is stubbed: JsonUtil runs unmodified']
WITNESSES = {'quick': ['int-key-collides-with-str-key', 'bool-vs-int-unequal', 'int-eq-float', 'typeerror', 'hashable-equal'],
             'thorough': ['int-key-collides-with-str-key', 'hashable-equal']}


SLIM = {'leaf_kinds': ['none', 'bool', 'int', 'float', 'str'], 'key_kinds': ['str', 'int', 'bool'], 'specials': [],
        'lits': ['true']}
MID = {'leaf_kinds': ['none', 'bool', 'int', 'float', 'special', 'str'], 'key_kinds': ['str', 'int', 'bool', 'none', 'float'],
       'specials': [-0.0, float('inf')], 'lits': ['true', '']}
FULL = {}
DICT2 = {'leaf_kinds': ['int', 'none'], 'key_kinds': ['str', 'int', 'bool'], 'specials': [], 'lits': ['true']}
CKEYS = {'leaf_kinds': ['int', 'none'], 'key_kinds': ['concrete'], 'specials': [], 'lits': ['true']}
BKEYS = {'leaf_kinds': ['int', 'none'], 'key_kinds': ['concrete', 'badkey'], 'specials': [], 'lits': ['true']}
BIGNUM = {'leaf_kinds': ['bigint', 'special', 'int', 'float'], 'key_kinds': ['str'], 'specials': J.BIG_FLOATS, 'lits': ['true']}
LIST2 = {'leaf_kinds': ['int', 'bool', 'float', 'str'], 'key_kinds': ['str'], 'specials': [], 'lits': ['true']}


def families(tier):
    if tier == 'quick':
        return [
            {'name': 'single', 'params': {'depth': 1, 'width': 2, 'bad': True, 'shape': FULL}, 'weight': 4},
            {'name': 'single', 'params': {'depth': 2, 'width': 1, 'bad': True, 'shape': MID}, 'weight': 1},
            {'name': 'pair', 'params': {'depth': 0, 'width': 0, 'shape': FULL}, 'weight': 1},
            {'name': 'pair', 'params': {'depth': 1, 'width': 1, 'shape': MID}, 'weight': 3},
            {'name': 'pair', 'params': {'depth': 1, 'width': 2, 'shape': DICT2, 'containers': ['dict']}, 'weight': 3},
            {'name': 'pair', 'params': {'depth': 1, 'width': 2, 'shape': LIST2, 'containers': ['list', 'tuple']}, 'weight': 3},
            {'name': 'triple', 'params': {'depth': 0, 'width': 0, 'shape': MID}, 'weight': 1},
            {'name': 'triple', 'params': {'depth': 1, 'width': 1, 'shape': DICT2}, 'weight': 2},
            # dict keys as plain Python values from the colliding classes (True/1/1.0, False/0/-0.0, keyword strings)
            {'name': 'single', 'params': {'depth': 1, 'width': 2, 'shape': CKEYS, 'containers': ['dict']}, 'weight': 1},
            {'name': 'pair', 'params': {'depth': 1, 'width': 1, 'shape': CKEYS, 'containers': ['dict']}, 'weight': 1},
            # integers beyond 2**53 against the floats they round to (and against unbounded symbolic integers)
            {'name': 'pair', 'params': {'depth': 0, 'width': 0, 'shape': BIGNUM}, 'weight': 1},
            {'name': 'triple', 'params': {'depth': 0, 'width': 0, 'shape': BIGNUM}, 'weight': 1},
            {'name': 'single', 'params': {'depth': 1, 'width': 1, 'shape': BIGNUM, 'containers': ['list']}, 'weight': 1},
            # keys that json refuses (tuples, bytes, frozenset): sanitize must raise TypeError
            {'name': 'single', 'params': {'depth': 2, 'width': 1, 'bad': True, 'shape': BKEYS, 'containers': ['dict', 'list']}, 'weight': 1},
        ]
    return [
        {'name': 'single', 'params': {'depth': 2, 'width': 2, 'bad': True, 'shape': MID}, 'weight': 2},
        {'name': 'single', 'params': {'depth': 1, 'width': 3, 'bad': True, 'shape': FULL}, 'weight': 1},
        {'name': 'pair', 'params': {'depth': 1, 'width': 2, 'shape': MID}, 'weight': 4},
        {'name': 'pair', 'params': {'depth': 1, 'width': 2, 'shape': SLIM, 'containers': ['dict']}, 'weight': 4},
        {'name': 'pair', 'params': {'depth': 2, 'width': 1, 'shape': SLIM}, 'weight': 2},
        {'name': 'triple', 'params': {'depth': 1, 'width': 1, 'shape': SLIM}, 'weight': 3},
    ]


def _real_roundtrip_check(eng, v, r):
    """Concrete mode only (replays and concolic cross-checks): sanitize(v) must
    be exactly json.loads(json.dumps(v))."""
    import json
    try:
        e = json.loads(json.dumps(v))
    except (TypeError, ValueError):
        return
    eng.check('C18.real-json', _exact(r, e), ('roundtrip',), info={'v': repr(v)[:200], 'sanitize': repr(r)[:200], 'json': repr(e)[:200]})


def _exact(a, b):
    if type(a) is not type(b):
        return False
    if isinstance(a, list):
        return len(a) == len(b) and all(_exact(x, y) for x, y in zip(a, b))
    if isinstance(a, dict):
        return list(sorted(a.keys())) == list(sorted(b.keys())) and all(_exact(a[k], b[k]) for k in a)
    return a == b and repr(a) == repr(b)


def harness(eng, fam, P):
    from file_builder.json_util import JsonUtil
    eng.register_literals(J.LITERALS)
    if eng.symbolic:
        bind_names({'repr': eng.repr_fn()})
    try:
        depth, width = P['depth'], P['width']
        shp = dict(P.get('shape') or {})
        if P.get('containers'):
            shp['containers'] = P['containers']
        sh = J.Shape(**shp)
        extra = ['bad'] if P.get('bad') else []
        if fam == 'single':
            v = J.gen_value(eng, 'v', depth, width, sh, extra)
            eng.path_info['v'] = repr(v)[:300]
            _single(eng, JsonUtil, v)
        elif fam == 'pair':
            a = J.gen_value(eng, 'a', depth, width, sh)
            b = J.gen_value(eng, 'b', depth, width, sh)
            eng.path_info['a'] = repr(a)[:200]
            eng.path_info['b'] = repr(b)[:200]
            _pair(eng, JsonUtil, a, b)
        else:
            vs = [J.gen_value(eng, x, depth, width, sh) for x in 'abc']
            eng.path_info['abc'] = repr(vs)[:300]
            _triple(eng, JsonUtil, vs)
    finally:
        unbind()


def _single(eng, JU, v):
    if J.has_bad(v):
        try:
            JU.sanitize(v)
            ok = False
        except TypeError:
            ok = True
        eng.check('C18.typeerror', ok, ('non-json',), info={'v': repr(v)[:200]})
        eng.witness('typeerror')
        return
    JU = _Total(eng, JU)
    r = JU.sanitize(v)
    e = J.spec_roundtrip(eng, v)
    eng.check('C18.sanitize-roundtrip', J.same(r, e), ('sanitize',), info={'v': repr(v)[:200], 'r': repr(r)[:200]})
    r2 = JU.sanitize(r)
    eng.check('C18.sanitize-idempotent', J.same(r2, e), ('idempotent',), info={'r': repr(r)[:200], 'r2': repr(r2)[:200]})
    shared = set(J.containers(v)) & set(J.containers(r))
    eng.check('C18.sanitize-no-sharing', not shared, ('sharing',))
    eng.check('C18.reflexive', bool(JU.is_equal(r, r)) is True, ('reflexive',), info={'r': repr(r)[:200]})
    eng.check('C18.hash-reflexive', bool(JU.to_hashable(r) == JU.to_hashable(r2)), ('hash-reflexive',))
    if isinstance(v, dict) and len(v) == 2 and len(r) == 1:
        eng.witness('int-key-collides-with-str-key')
    if not eng.symbolic:
        _real_roundtrip_check(eng, v, r)
    eng.sample({'family': 'single', 'v': J.concretise(v), 'sanitized': J.concretise(r)})


class _Total:
    """The helpers under test, with the law every other law presupposes: on JSON values they return (a TypeError or
    any other exception out of is_equal / to_hashable / sanitize on a JSON value is a violation, not a modelling gap)."""

    def __init__(self, eng, JU):
        self.eng, self.JU = eng, JU

    def _call(self, name, *args):
        from symx.common import HarnessError
        try:
            return getattr(self.JU, name)(*args)
        except HarnessError:
            raise
        except Exception as e:
            self.eng.check('C18.total', False, ('total', name, type(e).__name__),
                           info={'helper': name, 'args': repr(args)[:300], 'raised': '%s: %s' % (type(e).__name__, str(e)[:100])})
            raise PathEnd()

    def is_equal(self, a, b):
        return self._call('is_equal', a, b)

    def to_hashable(self, a):
        return self._call('to_hashable', a)

    def sanitize(self, a):
        return self._call('sanitize', a)


def _pair(eng, JU, a0, b0):
    JU = _Total(eng, JU)
    a, b = JU.sanitize(a0), JU.sanitize(b0)
    ab = JU.is_equal(a, b)
    eng.check('C18.is_equal-bool', ab.__class__ is bool, ('type',))
    ab = bool(ab)
    ba = bool(JU.is_equal(b, a))
    eng.check('C18.symmetric', ab == ba, ('symmetric',), info={'a': repr(a)[:200], 'b': repr(b)[:200]})
    spec = J.spec_equal(a, b)
    eng.check('C18.is_equal-spec', spec if ab else L.not_(spec), ('spec', str(ab)),
              info={'a': repr(a)[:200], 'b': repr(b)[:200], 'is_equal': ab})
    ha, hb = JU.to_hashable(a), JU.to_hashable(b)
    heq = bool(ha == hb)
    eng.check('C18.hashable-iff-equal', heq == ab, ('hashable', str(heq), str(ab)),
              info={'a': repr(a)[:200], 'b': repr(b)[:200], 'ha': repr(ha)[:200], 'hb': repr(hb)[:200]})
    # lists equal tuples
    eng.check('C18.list-eq-tuple', bool(JU.is_equal(J.tuplify(a), b)) == ab and bool(JU.is_equal(a, J.tuplify(b))) == ab,
              ('tuple',), info={'a': repr(a)[:200], 'b': repr(b)[:200]})
    if heq:
        eng.witness('hashable-equal')
    ca, cb = a.__class__, b.__class__
    if (ca is bool) != (cb is bool) and {ca, cb} <= {bool, int, float}:
        eng.witness('bool-vs-int-unequal')
    if ab and {ca, cb} == {int, float}:
        eng.witness('int-eq-float')
    eng.sample({'family': 'pair', 'a': J.concretise(a), 'b': J.concretise(b), 'is_equal': ab, 'hashable_equal': heq})


def _triple(eng, JU, vs):
    JU = _Total(eng, JU)
    a, b, c = [JU.sanitize(v) for v in vs]
    ab, bc, ac = bool(JU.is_equal(a, b)), bool(JU.is_equal(b, c)), bool(JU.is_equal(a, c))
    eng.check('C18.transitive', (not (ab and bc)) or ac, ('transitive',),
              info={'a': repr(a)[:150], 'b': repr(b)[:150], 'c': repr(c)[:150]})
    ha, hb, hc = [JU.to_hashable(x) for x in (a, b, c)]
    eng.check('C18.hashable-transitive', (not (bool(ha == hb) and bool(hb == hc))) or bool(ha == hc), ('hash-transitive',))
    if ab and bc:
        eng.witness('hashable-equal')
    eng.sample({'family': 'triple', 'values': [J.concretise(x) for x in (a, b, c)], 'ab': ab, 'bc': bc, 'ac': ac})

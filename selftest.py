#!/usr/bin/env python3
"""setup_cmd: offline self-test of the machinery (nothing to build or install)."""
import sys
sys.path.insert(0, '/repo')
sys.path.insert(0, '/verif')
import z3
print('z3', z3.get_version_string())
import symx.engine, symx.proxies, symx.fs, symx.env, symx.bind, symx.concrete
import file_builder
print('selftest ok')

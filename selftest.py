#!/usr/bin/env python3
"""setup_cmd: offline self-test of the machinery (nothing to build or install).
 1. imports (z3 from the tooling venv, the repo's modules from /repo)
 2. model validation: the repo's test-suite on the environment model + differential op sequences vs the real OS
 3. vacuity twins: a check whose obligation is replaced by False must report a VIOLATION that replays on the real OS
 4. solver diff: a sample of the discharged validity queries (SMT-LIB2) is re-decided by cvc5; verdicts must agree
"""
import os
import subprocess
import sys

V = os.path.dirname(os.path.abspath(__file__))
sys.path.insert(0, os.environ.get('VERIF_REPO', '/repo'))
sys.path.insert(0, V)
import z3
print('z3', z3.get_version_string())
import symx.engine, symx.proxies, symx.fs, symx.env, symx.bind, symx.concrete, symx.sched
import file_builder
r = subprocess.run([sys.executable, os.path.join(V, 'tools', 'model_validation.py')])
if r.returncode != 0:
    print('selftest: model validation failed')
    sys.exit(3)
ok = True
for prop, chk, fams in (('C13', 'C13.input', 'input'), ('C18', 'C18.symmetric', 'triple,pair'), ('C09', 'C09.return-values', 'same-dir')):
    env = dict(os.environ, VERIF_TWIN=chk, VERIF_FAMILIES=fams, VERIF_BUDGET_S='20', VERIF_EVIDENCE_DIR='/tmp/verif_selftest_evidence')
    p = subprocess.run([sys.executable, os.path.join(V, 'check.py'), prop, '--tier', 'quick'], capture_output=True, text=True, env=env)
    hit = 'VIOLATION property=%s' % prop in p.stdout
    print('twin %-22s -> exit %d, violation reported and replayed on the real OS: %s' % (chk, p.returncode, hit))
    ok = ok and hit and p.returncode == 1
import shutil
import tempfile
# 4. a sample of the validity queries is re-decided by a second solver (cvc5): the verdicts must agree
dump = tempfile.mkdtemp(prefix='verif_smt_')
for prop, fams, every in (('C13', 'input,integrity,readback', '3'), ('C06', 'all-vary', '150'), ('C18', 'triple', '40')):
    env = dict(os.environ, VERIF_DUMP_SMT=dump, VERIF_DUMP_EVERY=every, VERIF_FAMILIES=fams, VERIF_BUDGET_S='25',
               VERIF_EVIDENCE_DIR='/tmp/verif_selftest_evidence')
    subprocess.run([sys.executable, os.path.join(V, 'check.py'), prop, '--tier', 'quick'], capture_output=True, text=True, env=env)
r = subprocess.run([sys.executable, os.path.join(V, 'tools', 'diff_solvers.py'), dump], capture_output=True, text=True)
print(r.stdout.strip().splitlines()[-1] if r.stdout.strip() else 'solver diff produced no output')
ok = ok and r.returncode == 0
shutil.rmtree(dump, ignore_errors=True)
shutil.rmtree('/tmp/verif_selftest_evidence', ignore_errors=True)
print('selftest ok' if ok else 'selftest FAILED')
sys.exit(0 if ok else 3)

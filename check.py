#!/usr/bin/env python3
"""CLI of the verification machinery.

  python3-vt /verif/check.py <Cnn> [--tier quick|thorough]     run the check, write evidence/<Cnn>.json
  python3-vt /verif/check.py <Cnn> --replay <file>             replay a counterexample on the real OS

Exit 0: property held on everything explored; 1: VIOLATION line(s); 3: inconclusive / harness error.
"""
import os
import sys

VERIF = os.path.dirname(os.path.abspath(__file__))


def main():
    args = sys.argv[1:]
    if not args:
        print(__doc__)
        return 3
    prop = args[0]
    tier = os.environ.get('VERIF_TIER', 'quick')
    replay = None
    i = 1
    while i < len(args):
        if args[i] == '--tier':
            tier = args[i + 1]
            i += 2
        elif args[i] == '--replay':
            replay = args[i + 1]
            i += 2
        else:
            i += 1
    seed = int(os.environ.get('VERIF_SEED', '0') or 0)
    if os.environ.get('PYTHONHASHSEED') is None:
        env = dict(os.environ)
        env['PYTHONHASHSEED'] = str(seed % 4294967295)
        os.execve(sys.executable, [sys.executable] + sys.argv, env)
    # VERIF_REPO: a scratch copy of the repository (used when trying seeded changes while other checks run on /repo)
    sys.path.insert(0, os.environ.get('VERIF_REPO', '/repo'))
    sys.path.insert(0, VERIF)
    import logging
    logging.disable(logging.CRITICAL)
    if replay is not None:
        from symx.runner import run_replay
        status, failures = run_replay(os.path.abspath(replay))
        print('replay status: %s' % status)
        for f in failures:
            print('  ', f)
        if status == 'reproduced':
            print('VIOLATION property=%s replay=%s' % (prop, os.path.abspath(replay)))
            return 1
        return 0 if status == 'not-reproduced' else 3
    from symx.runner import run_check
    from symx.common import HarnessError
    modname = 'harness.' + prop.lower()
    try:
        return run_check(prop, modname, tier, seed)
    except HarnessError as e:
        print('HARNESS-ERROR %s: %s' % (prop, e))
        return 3
    except Exception as e:
        # e.g. the repository does not import: inconclusive, never a verdict
        import traceback
        traceback.print_exc()
        print('HARNESS-ERROR %s: %s: %s' % (prop, type(e).__name__, e))
        return 3


if __name__ == '__main__':
    sys.exit(main())

"""Replay a solver counterexample against the real library on the real file
system (no z3 needed: runs under /venv/bin/python).

usage: /venv/bin/python /verif/replay.py <replay.json> [--model]   (--model: in-memory ModelFS instead of the real OS)
"""
import importlib
import json
import logging
import os
import shutil
import sys
import tempfile
import traceback

sys.path.insert(0, os.environ.get('VERIF_REPO', '/repo'))
sys.path.insert(0, os.path.dirname(os.path.abspath(__file__)))
logging.disable(logging.CRITICAL)


def main():
    path = sys.argv[1]
    in_model = '--model' in sys.argv[2:]
    with open(path) as f:
        rep = json.load(f)
    from symx.concrete import ConcreteEngine
    from symx.bind import unbind
    mod = importlib.import_module(rep['module'])
    eng = ConcreteEngine(rep['model'])
    sandbox = None
    if not in_model:
        base = os.environ.get('VERIF_TMP') or tempfile.gettempdir()
        sandbox = tempfile.mkdtemp(prefix='verif_replay_', dir=base)
    eng.sandbox = sandbox
    status = 'not-reproduced'
    try:
        how = eng.run(lambda e: mod.harness(e, rep['family'], rep['params']))
        fails = [f for f in eng.failures]
        if any(f['check'] == rep['check'] for f in fails):
            status = 'reproduced'
        out = {'status': status, 'how': how, 'failures': [f for f in fails if f['check'] == rep['check']] or fails}
    except BaseException as e:
        out = {'status': 'error', 'failures': [{'error': '%s: %s' % (type(e).__name__, e),
                                                'trace': traceback.format_exc()[-3000:]}]}
    finally:
        unbind()
        if sandbox:
            shutil.rmtree(sandbox, ignore_errors=True)
    print('REPLAY-RESULT ' + json.dumps(out, default=str))
    if '-v' in sys.argv:
        print(json.dumps(out, indent=1, default=str))
    return 1 if out['status'] == 'reproduced' else (0 if out['status'] == 'not-reproduced' else 3)


if __name__ == '__main__':
    sys.exit(main())
